use std::collections::BTreeMap;
use syn::visit::{self, Visit};

#[derive(Default)]
struct Census { exprs: BTreeMap<String, usize>, methods: BTreeMap<String, usize>, calls: BTreeMap<String, usize>, macros: BTreeMap<String, usize>, pats: BTreeMap<String, usize>, in_rule_mod: bool, scope: String }

fn kind(e: &syn::Expr) -> &'static str {
    use syn::Expr::*;
    match e { Array(_)=>"Array", Assign(_)=>"Assign", Async(_)=>"Async", Await(_)=>"Await", Binary(_)=>"Binary", Block(_)=>"Block", Break(_)=>"Break", Call(_)=>"Call", Cast(_)=>"Cast", Closure(_)=>"Closure", Const(_)=>"Const", Continue(_)=>"Continue", Field(_)=>"Field", ForLoop(_)=>"ForLoop", Group(_)=>"Group", If(_)=>"If", Index(_)=>"Index", Infer(_)=>"Infer", Let(_)=>"Let", Lit(_)=>"Lit", Loop(_)=>"Loop", Macro(_)=>"Macro", Match(_)=>"Match", MethodCall(_)=>"MethodCall", Paren(_)=>"Paren", Path(_)=>"Path", Range(_)=>"Range", RawAddr(_)=>"RawAddr", Reference(_)=>"Reference", Repeat(_)=>"Repeat", Return(_)=>"Return", Struct(_)=>"Struct", Try(_)=>"Try", TryBlock(_)=>"TryBlock", Tuple(_)=>"Tuple", Unary(_)=>"Unary", Unsafe(_)=>"Unsafe", While(_)=>"While", Yield(_)=>"Yield", _=>"Other" }
}
impl<'ast> Visit<'ast> for Census {
    fn visit_expr(&mut self, e: &'ast syn::Expr) {
        *self.exprs.entry(format!("{}:{}", self.scope, kind(e))).or_default() += 1;
        if let syn::Expr::MethodCall(m) = e { *self.methods.entry(format!("{}:{}", self.scope, m.method)).or_default() += 1; }
        if let syn::Expr::Call(c) = e { if let syn::Expr::Path(p) = &*c.func { let s = p.path.segments.iter().map(|s| s.ident.to_string()).collect::<Vec<_>>().join("::"); 
            let s = if s.chars().next().map_or(false, |c| c.is_lowercase()) && !s.contains("::") { "<local fn>".to_string() } else { s };
            *self.calls.entry(format!("{}:{}", self.scope, s)).or_default() += 1; } }
        if let syn::Expr::Macro(m) = e { *self.macros.entry(m.mac.path.segments.last().unwrap().ident.to_string()).or_default() += 1; }
        visit::visit_expr(self, e);
    }
    fn visit_stmt_macro(&mut self, m: &'ast syn::StmtMacro) { *self.macros.entry(m.mac.path.segments.last().unwrap().ident.to_string()).or_default() += 1; }
    fn visit_item_mod(&mut self, m: &'ast syn::ItemMod) { let old = self.scope.clone(); self.scope = "rule".into(); visit::visit_item_mod(self, m); self.scope = old; }
    fn visit_pat(&mut self, p: &'ast syn::Pat) {
        use syn::Pat::*;
        let k = match p { Ident(_)=>"Ident", Tuple(_)=>"Tuple", Slice(_)=>"Slice", TupleStruct(_)=>"TupleStruct", Struct(_)=>"Struct", Wild(_)=>"Wild", Type(_)=>"Type", Reference(_)=>"Reference", Lit(_)=>"Lit", Path(_)=>"Path", Paren(_)=>"Paren", Or(_)=>"Or", _=>"Other" };
        *self.pats.entry(k.to_string()).or_default() += 1; visit::visit_pat(self, p);
    }
}
fn main() {
    let mut c = Census::default(); c.scope = "model".into();
    for path in std::env::args().skip(1) {
        let src = std::fs::read_to_string(&path).unwrap();
        let file = syn::parse_file(&src).unwrap_or_else(|e| panic!("{path}: {e}"));
        c.visit_file(&file);
    }
    println!("EXPRS {:?}\n\nMETHODS {:?}\n\nCALLS {:?}\n\nMACROS {:?}\n\nPATS {:?}", c.exprs, c.methods, c.calls, c.macros, c.pats);
}
