# Throw-away probe: extract rule functions from generated modules, derive per-atom ages from the index
# fields the code reads, compare with the flat-rule comment, and decide the age-partition property (C16-a) with z3.
import re, sys, glob, collections, z3
FIELD = re.compile(r'^(?P<rel>.+?)_(?P<age>new|old)(?:_eqs_(?P<eqs>[0-9_]+?))?_order_(?P<order>[0-9_]*)$')
def parse_functions(text):
    # yields (comment_lines, name, body_lines)
    lines = text.split('\n'); i = 0
    while i < len(lines):
        if lines[i].startswith('// rule '):
            com = []
            while lines[i].startswith('//'): com.append(lines[i][3:]); i += 1
            m = re.match(r'fn (\w+)\(env: &mut (\w+)\) \{', lines[i]); assert m, lines[i]
            name = m.group(1); i += 1; body = []
            depth = 1
            while depth > 0:
                l = lines[i]; depth += l.count('{') - l.count('}'); body.append(l); i += 1
            yield com, name, body[:-1]
        else: i += 1
def parse_comment(com):
    name = com[0][len('rule '):].rstrip(':'); prem = []; conc = []; mode = None
    for l in com[1:]:
        if l == 'if:': mode = prem; continue
        if l == 'then:': mode = conc; continue
        if not l.strip(): continue
        m = re.match(r'- (.+?)\((.*?)\)(?: \[(new|old|all)\])?$', l); assert m, l
        mode.append((m.group(1), tuple(a.strip() for a in m.group(2).split(',') if a.strip()), m.group(3)))
    return name, prem, conc
def analyse(body):
    src = ' '.join(body)
    src = re.sub(r'#\[allow\(unused_variables\)\]', '', src)
    toks = src
    setdef = {}    # setvar -> list of (field, boundvars)
    stmt_fields = collections.defaultdict(set)  # stmt index -> fields read
    pushes = []; loopvars = []; atoms = []  # atoms: (field, args) with full arity, as disjunctions
    consumed = set()
    # let X = env.F ;
    for m in re.finditer(r'let (\w+) = env\.(\w+) ;', toks):
        setdef[m.group(1)] = [(m.group(2), ())]
    pos = 0
    # process sequentially
    pat = re.compile(r'let (\w+) = (?:LazyCell::new\(\|\| \{ )?(\w+)\.get\((\w+)\)\.unwrap_or_else\(\|\| PrefixTree\d::empty\(\)\)(?: \}\))? ?;'
                     r'|for \((\w+), (\w+)\) in ((?:\w+\.iter_restrictions\(\) ?(?:\.chain\()?)+\)*) ?\{'
                     r'|if false ((?:\|\| !\w+\.is_empty\(\) ?)+)\{'
                     r'|env\.(\w+)\.push\(\[(.*?)\]\);')
    guards = []
    for m in pat.finditer(toks):
        if m.group(1):
            setdef[m.group(1)] = [(f, b + (m.group(3),)) for f, b in setdef[m.group(2)]]; consumed.add(m.group(2))
        elif m.group(4):
            srcs = re.findall(r'(\w+)\.iter_restrictions', m.group(6)); v = m.group(4)
            alts = []
            for s in srcs: alts += setdef[s]; consumed.add(s)
            setdef[m.group(5)] = [(f, b + (v,)) for f, b in alts]; loopvars.append(v)
        elif m.group(7):
            srcs = re.findall(r'!(\w+)\.is_empty', m.group(7)); alts = []
            for s in srcs: alts += setdef[s]; consumed.add(s)
            guards.append(alts)
        else:
            pushes.append((m.group(8), tuple(a.strip() for a in m.group(9).split(',') if a.strip())))
    # every set var that is fully bound (arity exhausted) and produced by a loop is a membership atom
    def arity(field): return len([x for x in FIELD.match(field).group('order').split('_') if x != ''])
    for sv, alts in setdef.items():
        if sv in consumed: continue
        if all(len(b) == arity(f) for f, b in alts) and alts: guards.append(alts)
        elif any(len(b) > 0 for f, b in alts): guards.append(alts + [('PARTIAL',)])
    return guards, pushes
def decode(field, bound):
    m = FIELD.match(field); order = [int(x) for x in m.group('order').split('_') if x != '']
    args = [None] * len(order)
    for k, col in enumerate(order): args[col] = bound[k]
    return m.group('rel'), m.group('eqs'), m.group('age'), tuple(args)
def main():
    files = sys.argv[1:]; nfam = 0; nfun = 0; bad = 0; maxn = 0
    fams = collections.defaultdict(list)
    for path in files:
        text = open(path).read()
        for com, name, body in parse_functions(text):
            nfun += 1
            cname, prem, conc = parse_comment(com)
            guards, pushes = analyse(body)
            code_atoms = []
            for alts in guards:
                if alts[-1] == ('PARTIAL',): print('PARTIAL set var in', path, name); bad += 1; continue
                dec = [decode(f, b) for f, b in alts]
                keys = {(r, e, a) for r, e, ag, a in dec}; assert len(keys) == 1, (path, name, dec)
                ages = {ag for r, e, ag, a in dec}
                r, e, a = keys.pop()
                code_atoms.append((r, e, a, 'all' if ages == {'new', 'old'} else ages.pop()))
            # compare with comment: same multiset of (args, age)
            c1 = sorted((a, ag) for r, e, a, ag in code_atoms)
            c2 = sorted((a, ag) for r, a, ag in prem)
            if c1 != c2: print('MISMATCH code vs comment', path, name, c1, c2); bad += 1
            if sorted(a for f, a in pushes) != sorted(a for r, a, _ in conc): print('MISMATCH pushes', path, name, pushes, conc); bad += 1
            fam = re.sub(r'_\d+$', '', cname) if len(prem) > 0 and not cname.startswith('functionality_') else cname
            fams[(path, fam)].append((cname, prem, conc))
    # age partition per family
    for (path, fam), subs in fams.items():
        nfam += 1
        atoms = sorted({(r, a) for r, a, _ in subs[0][1]})
        for _, prem, conc in subs:
            if sorted({(r, a) for r, a, _ in prem}) != atoms or conc != subs[0][2]: print('FAMILY not uniform', path, fam); bad += 1
        n = len(atoms); maxn = max(maxn, n)
        if n == 0 or fam.startswith('functionality_'): continue
        b = {at: z3.Bool(f'new_{i}') for i, at in enumerate(atoms)}
        def enabled(prem):
            return z3.And([b[(r, a)] if ag == 'new' else z3.Not(b[(r, a)]) if ag == 'old' else z3.BoolVal(True) for r, a, ag in prem])
        cnt = z3.Sum([z3.If(enabled(p), 1, 0) for _, p, _ in subs])
        anynew = z3.Or(list(b.values()))
        s = z3.Solver(); s.add(z3.Not(z3.And(z3.Implies(anynew, cnt == 1), z3.Implies(z3.Not(anynew), cnt == 0))))
        if s.check() != z3.unsat: print('PARTITION VIOLATED', path, fam, s.model()); bad += 1
    print(f'files={len(files)} functions={nfun} families={nfam} max_atoms={maxn} problems={bad}')
if __name__ == "__main__": main()
