use super::*;

fn balanced<V: Clone>(node: &Option<Rc<Node<V>>>) -> bool {
    match node {
        None => true,
        Some(n) => match n.as_ref() {
            Node::Data(d) => {
                let l = Node::size(&d.left);
                let r = Node::size(&d.right);
                if l + r >= 2 && ((r + 1) > DELTA * (l + 1) || (l + 1) > DELTA * (r + 1)) {
                    return false;
                }
                d.size == 1 + l + r && balanced(&d.left) && balanced(&d.right)
            }
            Node::Mapping(_) => false,
        },
    }
}

#[kani::proof]
#[kani::unwind(4)]
fn shape3_insert() {
    let mut m: WBTreeMap<()> = WBTreeMap::new();
    m.insert(4, ()); m.insert(2, ()); m.insert(6, ());
    let k: u32 = kani::any();
    kani::assume(k <= 8);
    let had = m.get(&k).is_some();
    let old = m.insert(k, ());
    assert_eq!(old.is_some(), had);
    assert!(m.get(&k).is_some());
    assert!(balanced(&m.root));
    assert_eq!(m.len(), Node::size(&m.root));
    std::mem::forget(m);
}

#[kani::proof]
#[kani::unwind(3)]
fn shape1_insert() {
    let mut m: WBTreeMap<()> = WBTreeMap::new();
    m.insert(4, ());
    let k: u32 = kani::any();
    kani::assume(k <= 8);
    let old = m.insert(k, ());
    assert_eq!(old.is_some(), k == 4);
    assert!(balanced(&m.root));
    assert_eq!(m.len(), Node::size(&m.root));
    std::mem::forget(m);
}
