# Throw-away probe: C01-R / C02-R as EPR queries for hand-given reference semantics vs. code-derived rule functions.
import re, sys, collections, z3, time, importlib.util
spec = importlib.util.spec_from_file_location("rules", "/tmp/gs/rules_lib.py"); rules = importlib.util.module_from_spec(spec); spec.loader.exec_module(rules)
E = z3.DeclareSort('E')
class Sig:
    def __init__(self, rels):  # rels: name -> list of column type names ; type sets are rels named '<type>' with 1 column
        self.rels = rels; self.p = {}
        for r, cols in rels.items():
            for age in ('new', 'old'):
                self.p[(r, age)] = z3.Function(f'{r}_{age}', *([E] * len(cols) + [z3.BoolSort()]))
    def atom(self, r, args, age):
        if age == 'all': return z3.Or(self.p[(r, 'new')](*args), self.p[(r, 'old')](*args)) if args else z3.Or(self.p[(r,'new')](), self.p[(r,'old')]())
        return self.p[(r, age)](*args)
    def axioms(self, typesets):
        ax = []
        for r, cols in self.rels.items():
            xs = [z3.Const(f'ax_{r}_{i}', E) for i in range(len(cols))]
            if xs:
                ax.append(z3.ForAll(xs, z3.Not(z3.And(self.p[(r, 'new')](*xs), self.p[(r, 'old')](*xs)))))
                for i, t in enumerate(cols):
                    if r != typesets[t]:   # INV-age
                        ax.append(z3.ForAll(xs, z3.Implies(self.p[(r, 'old')](*xs), self.p[(typesets[t], 'old')](xs[i]))))
        return ax
def module_functions(path, module):
    text = open(path).read()
    marks = [(m.start(), m.group(1)) for m in re.finditer(r'^mod (\w+) \{$', text, re.M)]
    ends = [p for p, _ in marks[1:]] + [text.index('unsafe extern "Rust"')]
    seg = [text[p:e] for (p, n), e in zip(marks, ends) if n == module][0]
    out = []
    for com, name, body in rules.parse_functions(seg):
        guards, pushes = rules.analyse(body)
        atoms = []
        for alts in guards:
            dec = [rules.decode(f, b) for f, b in alts]
            r, eqs, _, a = dec[0]; ages = {ag for _, _, ag, _ in dec}
            if eqs:  # diagonal copy: expand reduced args to full args
                eq = [int(x) for x in eqs.split('_')]; full = []; red = iter(a); seen = {}
                for i, j in enumerate(eq):
                    if i == j: seen[i] = next(red)
                    full.append(seen[j])
                a = tuple(full)
            atoms.append((r, a, 'all' if ages == {'new', 'old'} else ages.pop()))
        out.append((name, atoms, pushes))
    return out
def check(sig, typesets, relname, path, module, stages):
    funs = module_functions(path, module); ax = sig.axioms(typesets); res = []
    def body(atoms, env): return z3.And([sig.atom(relname(r), [env[v] for v in a], ag) for r, a, ag in atoms])
    # C01-R
    for si, (prem, eqs, concl) in enumerate(stages):
        vs = sorted({v for _, a in prem for v in a} | {v for e in eqs for v in e}); env = {v: z3.Const(f's_{v}', E) for v in vs}
        hyp = z3.And([sig.atom(r, [env[v] for v in a], 'all') for r, a in prem] + [env[a] == env[b] for a, b in eqs])
        anynew = z3.Or([sig.atom(r, [env[v] for v in a], 'new') for r, a in prem])
        covers = []
        for name, atoms, pushes in funs:
            lv = sorted({v for _, a, _ in atoms for v in a}); lenv = {v: z3.Const(f'l_{name}_{v}', E) for v in lv}
            for fld, pargs in pushes:
                ckind, cargs = concl
                if fld != ckind: continue
                alts = [cargs] + ([tuple(reversed(cargs))] if ckind.endswith('_equalities') else [])
                for ca in alts:
                    m = z3.And([lenv[p] == env[c] for p, c in zip(pargs, ca)])
                    covers.append(z3.Exists(list(lenv.values()), z3.And(body(atoms, lenv), m)) if lenv else z3.And(body(atoms, lenv), m))
        s = z3.Solver(); s.add(ax); s.add(hyp, anynew, z3.Not(z3.Or(covers)) if covers else z3.BoolVal(True))
        t = time.time(); r = s.check(); res.append((f'C01-R stage {si}', r, round(time.time() - t, 2)))
    # C02-R
    for name, atoms, pushes in funs:
        lv = sorted({v for _, a, _ in atoms for v in a}); lenv = {v: z3.Const(f'k_{v}', E) for v in lv}
        for fld, pargs in pushes:
            just = []
            for si, (prem, eqs, (ckind, cargs)) in enumerate(stages):
                if ckind != fld: continue
                vs = sorted({v for _, a in prem for v in a} | {v for e in eqs for v in e}); env = {v: z3.Const(f'q{si}_{v}', E) for v in vs}
                alts = [cargs] + ([tuple(reversed(cargs))] if ckind.endswith('_equalities') else [])
                for ca in alts:
                    f = z3.And([sig.atom(r, [env[v] for v in a], 'all') for r, a in prem] + [env[a] == env[b] for a, b in eqs] + [env[c] == lenv[p] for p, c in zip(pargs, ca)])
                    just.append(z3.Exists(list(env.values()), f) if env else f)
            s = z3.Solver(); s.add(ax); s.add(body(atoms, lenv), z3.Not(z3.Or(just)) if just else z3.BoolVal(True))
            t = time.time(); r = s.check(); res.append((f'C02-R {name} push {fld}', r, round(time.time() - t, 2)))
    return res
if __name__ == '__main__':
    P = '/tmp/x4/out/rich.eql.rs'
    sig = Sig({'r': ['A', 'A'], 'd': ['A'], 'f': ['A', 'A'], 'bar': ['Foo'], 'baz': ['A', 'Foo'], 'q': ['Foo'], 'a': ['A'], 'foo': ['Foo']})
    ts = {'A': 'a', 'Foo': 'foo'}
    rn = lambda r: r
    tests = {
      'diag': [([('r', ('x', 'x'))], [], ('new_d', ('x',)))],
      'nested': [([('f', ('x', 'e')), ('f', ('e', 'y')), ('r', ('x', 'z'))], [('z', 'y')], ('new_r', ('y', 'x')))],
      'en': [([('foo', ('v',)), ('bar', ('v',))], [], ('new_q', ('v',))), ([('foo', ('v',)), ('baz', ('y', 'v'))], [], ('new_d', ('y',)))],
      'ns': [([('d', ('x',))], [], ('new_f_def', ('x',))), ([('d', ('x',)), ('f', ('x', 'w'))], [], ('new_r', ('w', 'x')))],
      'functionality_f': [([('f', ('a', 'r0')), ('f', ('a', 'r1'))], [], ('new_a_equalities', ('r0', 'r1')))],
    }
    for mod, stages in tests.items():
        for line in check(sig, ts, rn, P, mod, stages): print(mod, *line)
