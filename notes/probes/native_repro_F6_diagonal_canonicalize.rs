#[allow(dead_code, unused)]
mod dg { include!("/tmp/sem/out5/dg.eql.rs"); } // generated from native_repro_F6_dg.eql
use dg::*;
fn main() {
    // reference run: no merge
    let mut m = Dg::new();
    let a = m.new_a(); let b = m.new_a(); let _c = m.new_a();
    m.insert_r(a, a); m.insert_r(a, b);
    m.close();
    println!("no merge      : d(a) = {}", m.d(a));                      // true
    // merge b into c while (a,a) and (a,b) are both still new
    let mut m = Dg::new();
    let a = m.new_a(); let b = m.new_a(); let c = m.new_a();
    m.insert_r(c, c); m.insert_r(c, a); m.insert_r(a, c); // make c heavy so that b is the child
    m.insert_r(a, a); m.insert_r(a, b);
    m.equate_a(b, c);
    m.close();
    println!("merge b into c: d(a) = {}  r(a,a) = {}", m.d(a), m.r(a, a)); // false, true
}
