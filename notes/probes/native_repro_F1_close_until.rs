#[allow(dead_code, unused)]
mod poset { include!("/tmp/x1/out/poset.eql.rs"); }
use poset::*;
fn main() {
    // early-stop then close
    let mut m = Poset::new();
    let a = m.new_p();
    let b = m.new_p();
    let r = m.close_until(|m| m.le(a, a));
    println!("close_until -> {r}; meet(a,b)={:?}", m.meet(a,b));
    m.close();
    println!("after close: meet(a,b)={:?} meet(a,a)={:?} count={}", m.meet(a,b), m.meet(a,a), m.iter_p().count());
    // direct
    let mut m = Poset::new();
    let a = m.new_p();
    let b = m.new_p();
    m.close();
    println!("direct close: meet(a,b)={:?} count={}", m.meet(a,b), m.iter_p().count());
}
