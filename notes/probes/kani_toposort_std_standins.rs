
// Array-backed stand-ins for the std collections used by toposort.rs (keys < K).
pub const K: usize = 4;
#[derive(Clone, Copy)]
pub struct BTreeMap<KT, V: Copy> { slots: [Option<V>; K], ph: std::marker::PhantomData<KT> }
impl<V: Copy> BTreeMap<u32, V> {
    pub fn new() -> Self { BTreeMap { slots: [None; K], ph: std::marker::PhantomData } }
    pub fn insert(&mut self, k: u32, v: V) -> Option<V> { let o = self.slots[k as usize]; self.slots[k as usize] = Some(v); o }
    pub fn get_mut(&mut self, k: &u32) -> Option<&mut V> { if (*k as usize) < K { self.slots[*k as usize].as_mut() } else { None } }
    pub fn remove(&mut self, k: &u32) -> Option<V> { if (*k as usize) < K { self.slots[*k as usize].take() } else { None } }
    pub fn is_empty(&self) -> bool { let mut i = 0; while i < K { if self.slots[i].is_some() { return false; } i += 1; } true }
    pub fn iter(&self) -> MapIter<'_, V> { MapIter { m: self, k: 0 } }
}
pub struct MapIter<'a, V: Copy> { m: &'a BTreeMap<u32, V>, k: usize }
static KEYS: [u32; K] = [0, 1, 2, 3];
impl<'a, V: Copy> Iterator for MapIter<'a, V> {
    type Item = (&'a u32, &'a V);
    fn next(&mut self) -> Option<(&'a u32, &'a V)> {
        while self.k < K { let k = self.k; self.k += 1; if let Some(v) = self.m.slots[k].as_ref() { return Some((&KEYS[k], v)); } }
        None
    }
}
impl<V: Copy> FromIterator<(u32, V)> for BTreeMap<u32, V> {
    fn from_iter<I: IntoIterator<Item = (u32, V)>>(it: I) -> Self { let mut m = BTreeMap::new(); for (k, v) in it { m.insert(k, v); } m }
}
#[derive(Clone, Copy)]
pub struct VecDeque<T: Copy> { items: [Option<T>; 8], head: usize, tail: usize }
impl<T: Copy> VecDeque<T> {
    pub fn new() -> Self { VecDeque { items: [None; 8], head: 0, tail: 0 } }
    pub fn push_back(&mut self, t: T) { assert!(self.tail < 8, "VERIF-BOUND"); self.items[self.tail] = Some(t); self.tail += 1; }
    pub fn pop_front(&mut self) -> Option<T> { if self.head < self.tail { self.head += 1; self.items[self.head - 1] } else { None } }
}
impl<T: Copy> FromIterator<T> for VecDeque<T> {
    fn from_iter<I: IntoIterator<Item = T>>(it: I) -> Self { let mut q = VecDeque::new(); for t in it { q.push_back(t); } q }
}
pub struct DequeIter<'a, T: Copy> { q: &'a VecDeque<T>, k: usize }
impl<'a, T: Copy> Iterator for DequeIter<'a, T> {
    type Item = &'a T;
    fn next(&mut self) -> Option<&'a T> { if self.k < self.q.tail { self.k += 1; self.q.items[self.k - 1].as_ref() } else { None } }
}
impl<'a, T: Copy> IntoIterator for &'a VecDeque<T> { type Item = &'a T; type IntoIter = DequeIter<'a, T>; fn into_iter(self) -> DequeIter<'a, T> { DequeIter { q: self, k: self.head } } }
