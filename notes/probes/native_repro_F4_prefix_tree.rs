use eqlog_runtime::*;
fn main() {
    let mut t = PrefixTree2::new();
    t.insert([1, 5]);
    let mut r = PrefixTree1::new();
    r.insert([5]);
    t.remove_restriction(1, &r);
    println!("after remove_restriction: is_empty={} count={} get(1).is_some()={}", t.is_empty(), t.iter().count(), t.get(1).is_some());
    let mut t2 = PrefixTree2::new();
    t2.insert_restriction(3, PrefixTree1::new());
    println!("after insert_restriction(empty): is_empty={} count={}", t2.is_empty(), t2.iter().count());
    let mut a = PrefixTree2::new(); a.insert([1,5]);
    let mut b = PrefixTree2::new(); b.insert([1,5]);
    let d = a.difference(&b);
    println!("difference: is_empty={} count={}", d.is_empty(), d.iter().count());
}
