#[allow(dead_code, unused)]
mod tri { include!("/tmp/sem/out6/tri.eql.rs"); }
use tri::*;
fn main() {
    let mut m = Tri::new();
    let a = m.new_a(); let b = m.new_a();
    m.insert_t(a, a, b);
    m.close();
    println!("t(a,a,b) only: d(a) = {} d(b) = {}", m.d(a), m.d(b));
}
