# Throw-away feasibility probe: one close_until step of {trans, antisym} over U elements, hand-built
# predicated symbolic execution (what gensym would generate), invariant preservation decided by z3.
import z3, time, itertools, sys
DEFS=[]
_c=[0]
def name(e):
    if z3.is_true(e) or z3.is_false(e) or z3.is_const(e): return e
    _c[0]+=1
    v = z3.Const(f'd{_c[0]}', e.sort())
    DEFS.append(v == e)
    return v

U = int(sys.argv[1]) if len(sys.argv) > 1 else 3
BUG = sys.argv[2] if len(sys.argv) > 2 else ""
E = range(U)
T = list(itertools.product(E, E))
BV = z3.BitVecSort(2)
def bv(i): return z3.BitVecVal(i, 2)
t0 = time.time()
# ---- pre-state
new = {t: z3.Bool(f"new_{t[0]}{t[1]}") for t in T}
old = {t: z3.Bool(f"old_{t[0]}{t[1]}") for t in T}
par = [z3.BitVec(f"par_{i}", 2) for i in E]
idx = {(e, t): z3.Bool(f"idx_{e}_{t[0]}{t[1]}") for e in E for t in T}
pnew = [z3.Bool(f"pnew_{i}") for i in E]; pold = [z3.Bool(f"pold_{i}") for i in E]

def root(parv, x):           # x: BitVec expr; bounded chase U steps
    r = x
    for _ in range(U):
        r = name(sel(parv, r))
    return r
def sel(arr, i):             # arr: python list of exprs, i: BitVec
    e = arr[U-1]
    for k in reversed(range(U-1)):
        e = z3.If(i == bv(k), arr[k], e)
    return e
def isroot(parv, i): return parv[i] == bv(i)

def inv(new, old, par, idx, pnew, pold):
    c = []
    for i in E:
        c.append(z3.ULT(par[i], bv(U)) if U < 4 else z3.BoolVal(True))
        c.append(root(par, par[i]) == root(par, bv(i)))
        c.append(sel(par, root(par, bv(i))) == root(par, bv(i)))   # acyclic: chase ends in a fixpoint
        c.append(z3.Not(z3.And(pnew[i], pold[i])))
        c.append(z3.Or(pnew[i], pold[i]) == isroot(par, i))
    for (a, b) in T:
        t = (a, b)
        c.append(z3.Not(z3.And(new[t], old[t])))
        c.append(z3.Implies(z3.Or(new[t], old[t]), z3.And(isroot(par, a), isroot(par, b), idx[(a, t)], idx[(b, t)])))
    # INV-sn on old x old
    for x, y, zz in itertools.product(E, E, E):
        c.append(z3.Implies(z3.And(old[(x, y)], old[(y, zz)]), z3.Or(old[(x, zz)], new[(x, zz)])))
    for x, y in T:
        if x != y:
            c.append(z3.Not(z3.And(old[(x, y)], old[(y, x)])))   # antisym already applied: both roots & distinct impossible
    return z3.And(c)

pre = inv(new, old, par, idx, pnew, pold)

# ---- rules (guarded pushes, in loop order)
allr = {t: z3.Or(new[t], old[t]) for t in T}
push_le, push_eq = [], []
for x, y in T:
    for zz in E: push_le.append((z3.And(new[(x, y)], old[(y, zz)]), (x, zz)))           # trans_0_0
for y, zz in T:
    for x in E: push_le.append((z3.And(new[(y, zz)], allr[(x, y)]), (x, zz)))           # trans_0_1
for x, y in T:
    g = z3.And(new[(x, y)], old[(y, x)]); push_eq += [(g, (x, y)), (g, (y, x))]          # antisym_0_0
for y, x in T:
    g = z3.And(new[(y, x)], allr[(x, y)]); push_eq += [(g, (x, y)), (g, (y, x))]         # antisym_0_1
# ---- move_new_to_old
old1 = {t: z3.Or(old[t], new[t]) for t in T}
new1 = {t: z3.BoolVal(False) for t in T}
if BUG == "nomove": old1 = dict(old)
pold1 = [z3.Or(pold[i], pnew[i]) for i in E]; pnew1 = [z3.BoolVal(False)] * U
# ---- apply_equalities
par1 = list(par); upro = []      # upro: guarded list of (guard, element bv)
k = 0
for g, (l, r) in push_eq:
    rl, rr = root(par1, bv(l)), root(par1, bv(r))
    doit = z3.And(g, rl != rr)
    w = z3.Bool(f"w_{k}"); k += 1                      # weight comparison outcome: free
    rt = z3.If(w, rl, rr); ch = z3.If(w, rr, rl)
    par1 = [name(z3.If(z3.And(doit, ch == bv(i)), rt, par1[i])) for i in E]
    pold1 = [name(z3.And(pold1[i], z3.Not(z3.And(doit, ch == bv(i))))) for i in E]
    upro.append((doit, ch))
# ---- canonicalize + insert
new2, old2, idx2 = dict(new1), dict(old1), dict(idx)
def insert_le(g, a, b):   # a, b: BitVec exprs (already arbitrary elements); guarded by g
    global new2, idx2
    ra, rb = root(par1, a), root(par1, b)
    present = z3.Or([z3.And(ra == bv(t[0]), rb == bv(t[1]), z3.Or(new2[t], old2[t])) for t in T])
    do = name(z3.And(g, z3.Not(present)))
    for t in T:
        hit = z3.And(do, ra == bv(t[0]), rb == bv(t[1]))
        new2[t] = name(z3.Or(new2[t], hit))
        idx2[(t[0], t)] = name(z3.Or(idx2[(t[0], t)], hit))
        idx2[(t[1], t)] = name(z3.Or(idx2[(t[1], t)], hit))
rows_q = []
for g, el in upro:                                   # for el in uprooted: rows = idx.remove(el)
    for e in E:
        ge = z3.And(g, el == bv(e))
        for t in T:
            rows_q.append((name(z3.And(ge, idx2[(e, t)])), t))
        for t in T:
            idx2[(e, t)] = name(z3.And(idx2[(e, t)], z3.Not(ge)))
for g, t in rows_q:
    was = z3.And(g, z3.Or(new2[t], old2[t]))
    if BUG != "noremove":
        new2[t] = name(z3.And(new2[t], z3.Not(was))); old2[t] = name(z3.And(old2[t], z3.Not(was)))
    insert_le(was, bv(t[0]), bv(t[1]))
# ---- apply_tuples
for g, (x, zz) in push_le:
    insert_le(g, bv(x), bv(zz))
post = inv(new2, old2, par1, idx2, pnew1, pold1)
print("encode", round(time.time() - t0, 1), "s")
s = z3.Solver()
s.add(pre, z3.Not(post)); s.add(DEFS)
t1 = time.time(); r = s.check(); print("step lemma:", r, round(time.time() - t1, 1), "s")
if r == z3.sat:
    m = s.model()
    print("new", [t for t in T if z3.is_true(m.eval(new[t]))], "old", [t for t in T if z3.is_true(m.eval(old[t]))], "par", [m.eval(p) for p in par])
# vacuity twin
s2 = z3.Solver(); s2.add(DEFS); s2.add(pre, z3.Or([g for g, _ in upro]) if upro else z3.BoolVal(False)); print("cover merge:", s2.check())
