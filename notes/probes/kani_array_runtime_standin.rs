//! Reference runtime, allocation-free: tuples over the universe 0..U as nested bool arrays.
pub const U: usize = 2;
pub const CAP: usize = 24;

#[path = "/repo/eqlog-runtime/src/unification.rs"]
mod unification_real;

#[derive(Clone, Copy, Debug)]
pub struct PrefixTree0(pub Option<()>);
static EMPTY0: PrefixTree0 = PrefixTree0(None);
static NONEMPTY0: PrefixTree0 = PrefixTree0(Some(()));
impl PrefixTree0 {
    pub const fn new() -> Self { PrefixTree0(None) }
    pub fn empty() -> &'static Self { &EMPTY0 }
    pub fn insert(&mut self, []: [u32; 0]) -> bool { let w = self.0.is_none(); self.0 = Some(()); w }
    pub fn contains(&self, []: [u32; 0]) -> bool { self.0.is_some() }
    pub fn remove(&mut self, []: [u32; 0]) -> bool { let w = self.0.is_some(); self.0 = None; w }
    pub fn is_empty(&self) -> bool { self.0.is_none() }
    pub fn clear(&mut self) { self.0 = None; }
}
#[cfg(kani)]
impl kani::Arbitrary for PrefixTree0 {
    fn any() -> Self { if kani::any() { PrefixTree0(Some(())) } else { PrefixTree0(None) } }
}

pub struct RestrIter<'a, S> { rows: &'a [S; U], k: usize }
pub struct TupleIter<const N: usize> { items: [[u32; N]; 8], len: usize, k: usize }
impl<const N: usize> Iterator for TupleIter<N> {
    type Item = [u32; N];
    fn next(&mut self) -> Option<[u32; N]> {
        if self.k < self.len { self.k += 1; Some(self.items[self.k - 1]) } else { None }
    }
}

// PrefixTree1
#[derive(Clone, Copy, Debug)]
pub struct PrefixTree1 { pub rows: [bool; U] }
static EMPTY1: PrefixTree1 = PrefixTree1 { rows: [false; U] };
impl PrefixTree1 {
    pub const fn new() -> Self { PrefixTree1 { rows: [false; U] } }
    pub fn empty() -> &'static Self { &EMPTY1 }
    pub fn is_empty(&self) -> bool { let mut i = 0; while i < U { if self.rows[i] { return false; } i += 1; } true }
    pub fn clear(&mut self) { self.rows = [false; U]; }
    pub fn insert(&mut self, [a]: [u32; 1]) -> bool { let w = !self.rows[a as usize]; self.rows[a as usize] = true; w }
    pub fn contains(&self, [a]: [u32; 1]) -> bool { (a as usize) < U && self.rows[a as usize] }
    pub fn remove(&mut self, [a]: [u32; 1]) -> bool { if (a as usize) >= U { return false; } let w = self.rows[a as usize]; self.rows[a as usize] = false; w }
    pub fn get(&self, k: u32) -> Option<&PrefixTree0> { if self.contains([k]) { Some(&NONEMPTY0) } else { None } }
    pub fn iter(&self) -> Iter1<'_> { Iter1 { t: self, k: 0 } }
    pub fn iter_restrictions(&self) -> IterR1<'_> { IterR1 { t: self, k: 0 } }
}
pub struct Iter1<'a> { t: &'a PrefixTree1, k: usize }
impl<'a> Iterator for Iter1<'a> {
    type Item = [u32; 1];
    fn next(&mut self) -> Option<[u32; 1]> {
        while self.k < U { let k = self.k; self.k += 1; if self.t.rows[k] { return Some([k as u32]); } }
        None
    }
}
pub struct IterR1<'a> { t: &'a PrefixTree1, k: usize }
impl<'a> Iterator for IterR1<'a> {
    type Item = (u32, PrefixTree0);
    fn next(&mut self) -> Option<(u32, PrefixTree0)> {
        while self.k < U { let k = self.k; self.k += 1; if self.t.rows[k] { return Some((k as u32, NONEMPTY0)); } }
        None
    }
}
#[cfg(kani)]
impl kani::Arbitrary for PrefixTree1 { fn any() -> Self { PrefixTree1 { rows: kani::any() } } }

macro_rules! tree {
    ($name:ident, $sub:ident, $n:expr, $m:expr, $empty:ident, $iter:ident, $iterr:ident, $subiter:ident) => {
        #[derive(Clone, Copy, Debug)]
        pub struct $name { pub rows: [$sub; U] }
        static $empty: $name = $name { rows: [<$sub>::new(); U] };
        impl $name {
            pub const fn new() -> Self { $name { rows: [<$sub>::new(); U] } }
            pub fn empty() -> &'static Self { &$empty }
            pub fn is_empty(&self) -> bool { let mut i = 0; while i < U { if !self.rows[i].is_empty() { return false; } i += 1; } true }
            pub fn clear(&mut self) { *self = Self::new(); }
            pub fn insert(&mut self, t: [u32; $n]) -> bool {
                let mut rest = [0u32; $m]; let mut i = 0; while i < $m { rest[i] = t[i + 1]; i += 1; }
                self.rows[t[0] as usize].insert(rest)
            }
            pub fn contains(&self, t: [u32; $n]) -> bool {
                let mut rest = [0u32; $m]; let mut i = 0; while i < $m { rest[i] = t[i + 1]; i += 1; }
                (t[0] as usize) < U && self.rows[t[0] as usize].contains(rest)
            }
            pub fn remove(&mut self, t: [u32; $n]) -> bool {
                let mut rest = [0u32; $m]; let mut i = 0; while i < $m { rest[i] = t[i + 1]; i += 1; }
                (t[0] as usize) < U && self.rows[t[0] as usize].remove(rest)
            }
            pub fn get(&self, k: u32) -> Option<&$sub> {
                if (k as usize) < U && !self.rows[k as usize].is_empty() { Some(&self.rows[k as usize]) } else { None }
            }
            pub fn iter(&self) -> $iter<'_> { $iter { t: self, k: 0, sub: None } }
            pub fn iter_restrictions(&self) -> $iterr<'_> { $iterr { t: self, k: 0 } }
        }
        pub struct $iter<'a> { t: &'a $name, k: usize, sub: Option<$subiter<'a>> }
        impl<'a> Iterator for $iter<'a> {
            type Item = [u32; $n];
            fn next(&mut self) -> Option<[u32; $n]> {
                loop {
                    if let Some(sub) = self.sub.as_mut() {
                        if let Some(r) = sub.next() {
                            let mut t = [0u32; $n]; t[0] = (self.k - 1) as u32;
                            let mut i = 0; while i < $m { t[i + 1] = r[i]; i += 1; }
                            return Some(t);
                        }
                        self.sub = None;
                    }
                    if self.k >= U { return None; }
                    self.sub = Some(self.t.rows[self.k].iter());
                    self.k += 1;
                }
            }
        }
        pub struct $iterr<'a> { t: &'a $name, k: usize }
        impl<'a> Iterator for $iterr<'a> {
            type Item = (u32, &'a $sub);
            fn next(&mut self) -> Option<(u32, &'a $sub)> {
                while self.k < U { let k = self.k; self.k += 1; if !self.t.rows[k].is_empty() { return Some((k as u32, &self.t.rows[k])); } }
                None
            }
        }
        #[cfg(kani)]
        impl kani::Arbitrary for $name { fn any() -> Self { $name { rows: kani::any() } } }
    };
}
tree!(PrefixTree2, PrefixTree1, 2, 1, EMPTY2, Iter2, IterR2, Iter1);
tree!(PrefixTree3, PrefixTree2, 3, 2, EMPTY3, Iter3, IterR3, Iter2);

pub use unification_real::Unification;

/// Fixed-capacity stand-in for std Vec (shadows the prelude name through the glob import).
#[derive(Clone, Copy, Debug)]
pub struct Vec<T: Copy> { pub items: [Option<T>; CAP], pub len: usize }
impl<T: Copy> Default for Vec<T> { fn default() -> Self { Self::new() } }
impl<T: Copy> Vec<T> {
    pub fn new() -> Self { Vec { items: [None; CAP], len: 0 } }
    pub fn push(&mut self, t: T) { assert!(self.len < CAP, "VERIF-BOUND: Vec capacity"); self.items[self.len] = Some(t); self.len += 1; }
    pub fn len(&self) -> usize { self.len }
    pub fn is_empty(&self) -> bool { self.len == 0 }
    pub fn clear(&mut self) { self.len = 0; }
    pub fn iter(&self) -> VecIter<T> { VecIter { v: *self, k: 0 } }
    pub fn drain(&mut self, _r: std::ops::RangeFull) -> VecIter<T> { let it = VecIter { v: *self, k: 0 }; self.len = 0; it }
}
impl<T: Copy> std::ops::Index<usize> for Vec<T> { type Output = T; fn index(&self, i: usize) -> &T { assert!(i < self.len); self.items[i].as_ref().unwrap() } }
impl<T: Copy> std::ops::IndexMut<usize> for Vec<T> { fn index_mut(&mut self, i: usize) -> &mut T { assert!(i < self.len); self.items[i].as_mut().unwrap() } }
pub struct VecIter<T: Copy> { v: Vec<T>, k: usize }
impl<T: Copy> Iterator for VecIter<T> {
    type Item = T;
    fn next(&mut self) -> Option<T> { if self.k < self.v.len { self.k += 1; self.v.items[self.k - 1] } else { None } }
}
impl<T: Copy> VecIter<T> { pub fn copied(self) -> Self { self } }
impl<T: Copy> IntoIterator for Vec<T> { type Item = T; type IntoIter = VecIter<T>; fn into_iter(self) -> VecIter<T> { VecIter { v: self, k: 0 } } }

pub mod vstd {
    use super::U;
    #[derive(Clone, Copy, Debug)]
    pub struct BTreeMap<K, V: Copy> { pub slots: [Option<V>; U], ph: std::marker::PhantomData<K> }
    pub struct BTreeSet<T>(std::marker::PhantomData<T>);
    pub mod btree_set {}
    pub struct Entry<'a, V> { slot: &'a mut Option<V> }
    impl<'a, V: Default> Entry<'a, V> {
        pub fn or_default(self) -> &'a mut V {
            if self.slot.is_none() { *self.slot = Some(V::default()); }
            self.slot.as_mut().unwrap()
        }
    }
    impl<V: Copy> BTreeMap<u32, V> {
        pub fn new() -> Self { BTreeMap { slots: [None; U], ph: std::marker::PhantomData } }
        pub fn entry(&mut self, k: u32) -> Entry<'_, V> { Entry { slot: &mut self.slots[k as usize] } }
        pub fn remove(&mut self, k: &u32) -> Option<V> { self.slots[*k as usize].take() }
    }
}
