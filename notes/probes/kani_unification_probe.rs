#![allow(dead_code, unused)]
#[path = "/repo/eqlog-runtime/src/unification.rs"]
pub mod unification;

#[cfg(kani)]
mod harness {
    use super::unification::Unification;
    const N: usize = 4;
    #[kani::proof]
    #[kani::unwind(6)]
    fn uf_matches_reference() {
        let mut uf: Unification<u32> = Unification::new();
        uf.increase_size_to(N);
        // reference: class id per element
        let mut cls: [u8; N] = [0, 1, 2, 3];
        for _ in 0..3 {
            let a: u32 = kani::any();
            let b: u32 = kani::any();
            kani::assume((a as usize) < N && (b as usize) < N);
            let ra = uf.root(a);
            let rb = uf.root(b);
            assert!(uf.root(ra) == ra);
            if ra != rb {
                uf.union_roots_into(ra, rb);
                let (ca, cb) = (cls[a as usize], cls[b as usize]);
                for i in 0..N { if cls[i] == ca { cls[i] = cb; } }
            }
        }
        let x: u32 = kani::any();
        let y: u32 = kani::any();
        kani::assume((x as usize) < N && (y as usize) < N);
        let same = uf.root_const(x) == uf.root_const(y);
        assert_eq!(same, cls[x as usize] == cls[y as usize]);
        assert_eq!(uf.root_const(x), uf.root(x));
        assert_eq!(uf.root_const(uf.root_const(x)), uf.root_const(x));
    }
}
