# Throw-away probe: symbolic history (k API calls from new()) + close() unrolled K iterations for {trans, antisym},
# assert closedness at exit and "not dirty after K iterations". Measures solver tractability of history queries.
import z3, time, itertools, sys
U = 3; K = int(sys.argv[1]); NCALLS = int(sys.argv[2]); BUG = sys.argv[3] if len(sys.argv) > 3 else ""
E = range(U); T = list(itertools.product(E, E))
def bv(i): return z3.BitVecVal(i, 2)
DEFS = []; _c = [0]
def name(e):
    if z3.is_true(e) or z3.is_false(e) or z3.is_const(e) or z3.is_bv_value(e): return e
    _c[0] += 1; v = z3.Const(f'd{_c[0]}', e.sort()); DEFS.append(v == e); return v
def sel(arr, i):
    e = arr[U-1]
    for k in reversed(range(U-1)): e = z3.If(i == bv(k), arr[k], e)
    return e
def root(par, x):
    r = x
    for _ in range(U): r = name(sel(par, r))
    return r
F = z3.BoolVal(False); Tt = z3.BoolVal(True)
class S:  # state
    def __init__(s):
        s.new = {t: F for t in T}; s.old = {t: F for t in T}; s.par = [bv(i) for i in E]
        s.idx = {(e, t): F for e in E for t in T}; s.upro = []   # all U elements exist from the start (new_p called U times)
wcount = [0]
def insert_le(s, g, a, b):
    ra, rb = root(s.par, a), root(s.par, b)
    present = z3.Or([z3.And(ra == bv(t[0]), rb == bv(t[1]), z3.Or(s.new[t], s.old[t])) for t in T])
    do = name(z3.And(g, z3.Not(present)))
    for t in T:
        hit = name(z3.And(do, ra == bv(t[0]), rb == bv(t[1])))
        s.new[t] = name(z3.Or(s.new[t], hit)); s.idx[(t[0], t)] = name(z3.Or(s.idx[(t[0], t)], hit)); s.idx[(t[1], t)] = name(z3.Or(s.idx[(t[1], t)], hit))
def equate(s, g, l, r):
    rl, rr = root(s.par, l), root(s.par, r)
    doit = name(z3.And(g, rl != rr)); w = z3.Bool(f'w{wcount[0]}'); wcount[0] += 1
    rt = z3.If(w, rl, rr); ch = name(z3.If(w, rr, rl))
    s.par = [name(z3.If(z3.And(doit, ch == bv(i)), rt, s.par[i])) for i in E]
    s.upro.append((doit, ch))
def canonicalize(s):
    rows_q = []
    for g, el in s.upro:
        for e in E:
            ge = name(z3.And(g, el == bv(e)))
            for t in T: rows_q.append((name(z3.And(ge, s.idx[(e, t)])), t))
            for t in T: s.idx[(e, t)] = name(z3.And(s.idx[(e, t)], z3.Not(ge)))
    for g, t in rows_q:
        was = name(z3.And(g, z3.Or(s.new[t], s.old[t])))
        if BUG != "noremove":
            s.new[t] = name(z3.And(s.new[t], z3.Not(was))); s.old[t] = name(z3.And(s.old[t], z3.Not(was)))
        insert_le(s, was, bv(t[0]), bv(t[1]))
    s.upro = []
def dirty(s): return z3.Or([s.new[t] for t in T] + [g for g, _ in s.upro])
def iteration(s, active):
    allr = {t: z3.Or(s.new[t], s.old[t]) for t in T}; push_le = []; push_eq = []
    for x, y in T:
        for zz in E: push_le.append((z3.And(active, s.new[(x, y)], s.old[(y, zz)]), (x, zz)))
    for y, zz in T:
        for x in E: push_le.append((z3.And(active, s.new[(y, zz)], allr[(x, y)]), (x, zz)))
    for x, y in T:
        g = z3.And(active, s.new[(x, y)], s.old[(y, x)]); push_eq += [(g, (x, y)), (g, (y, x))]
    for y, x in T:
        g = z3.And(active, s.new[(y, x)], allr[(x, y)]); push_eq += [(g, (x, y)), (g, (y, x))]
    for t in T:
        s.old[t] = name(z3.If(active, z3.Or(s.old[t], s.new[t]), s.old[t])); s.new[t] = name(z3.And(s.new[t], z3.Not(active)))
    for g, (l, r) in push_eq: equate(s, name(g), bv(l), bv(r))
    canonicalize(s)
    for g, (x, zz) in push_le: insert_le(s, name(g), bv(x), bv(zz))
t0 = time.time(); s = S()
for c in range(NCALLS):
    kind = z3.Bool(f'kind{c}'); a = z3.BitVec(f'a{c}', 2); b = z3.BitVec(f'b{c}', 2)
    DEFS += [z3.ULT(a, bv(U)), z3.ULT(b, bv(U))]
    insert_le(s, kind, a, b); equate(s, z3.Not(kind), a, b)
canonicalize(s)                      # close_until prologue
active = Tt
for it in range(K):
    iteration(s, active)
    active = name(z3.And(active, dirty(s)))   # loop continues only while dirty
bound_ok = z3.Not(active)
closed = []
for x, y, zz in itertools.product(E, E, E):
    closed.append(z3.Implies(z3.And(z3.Or(s.new[(x, y)], s.old[(x, y)]), z3.Or(s.new[(y, zz)], s.old[(y, zz)])), z3.Or(s.new[(x, zz)], s.old[(x, zz)])))
for x, y in T:
    if x != y: closed.append(z3.Not(z3.And(z3.Or(s.new[(x, y)], s.old[(x, y)]), z3.Or(s.new[(y, x)], s.old[(y, x)]))))
    closed.append(z3.Implies(z3.Or(s.new[(x, y)], s.old[(x, y)]), z3.And(s.par[x] == bv(x), s.par[y] == bv(y))))
print('encode', round(time.time() - t0, 1), 's; defs', len(DEFS))
sol = z3.Solver(); sol.add(DEFS); sol.add(z3.Not(bound_ok)); t1 = time.time(); print('iteration bound K sufficient:', sol.check(), round(time.time() - t1, 1), 's')
sol = z3.Solver(); sol.add(DEFS); sol.add(bound_ok, z3.Not(z3.And(closed))); t1 = time.time(); r = sol.check(); print('closed at exit:', r, round(time.time() - t1, 1), 's')
if r == z3.sat:
    m = sol.model(); print([(m.eval(z3.Bool(f'kind{c}')), m.eval(z3.BitVec(f'a{c}', 2)), m.eval(z3.BitVec(f'b{c}', 2))) for c in range(NCALLS)])
