#[allow(dead_code, unused)]
mod inh { include!("/tmp/sem/out4/inh.eql.rs"); }
use inh::*;
fn run(mor_first: bool) -> (bool, bool) {
    let mut m = Inh::new();
    let a = m.define_a();
    let c = m.define_c();
    let x = m.new_carrier();
    let f = m.new_subs_mor();
    if mor_first {
        m.insert_subs_mor_dom(f, a);
        m.insert_subs_mor_cod(f, c);
    }
    m.insert_element(a, x);
    m.close();
    if !mor_first {
        m.insert_subs_mor_dom(f, a);
        m.insert_subs_mor_cod(f, c);
        m.close();
    }
    (m.element(c, x), m.in_c(x))
}
fn main() {
    println!("morphism before facts : element(c,x), in_c(x) = {:?}", run(true));
    println!("morphism after a close: element(c,x), in_c(x) = {:?}", run(false));
}
