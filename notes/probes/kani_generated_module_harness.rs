mod verif {
    use super::*;
    use std::cell::Cell;

    fn transpose(t: &PrefixTree2) -> PrefixTree2 {
        let mut r = PrefixTree2::new();
        for a in 0..U { for b in 0..U {
            if t.contains([a as u32, b as u32]) { r.insert([b as u32, a as u32]); }
        }}
        r
    }
    fn same2(a: &PrefixTree2, b: &PrefixTree2) -> bool {
        for x in 0..U { for y in 0..U {
            if a.contains([x as u32, y as u32]) != b.contains([x as u32, y as u32]) { return false; }
        }}
        true
    }

    #[kani::proof]
    #[kani::unwind(10)]
    fn one_iteration_trans() {
        let mut m = Poset::new();
        // all U elements exist, all roots, arbitrary new/old split
        m.p_equalities.increase_size_to(U);
        for _ in 0..U { m.p_weights.push(0); }
        let p_new: PrefixTree1 = kani::any();
        for i in 0..U {
            if p_new.contains([i as u32]) { m.p_new_order_0.insert([i as u32]); } else { m.p_old_order_0.insert([i as u32]); }
        }
        let le_new: PrefixTree2 = kani::any();
        let le_old: PrefixTree2 = kani::any();
        for x in 0..U { for y in 0..U {
            kani::assume(!(le_new.contains([x as u32, y as u32]) && le_old.contains([x as u32, y as u32])));
        }}
        m.le_new_order_0_1 = le_new;
        m.le_old_order_0_1 = le_old;
        m.le_new_order_1_0 = transpose(&le_new);
        m.le_old_order_1_0 = transpose(&le_old);
        m.empty_join_is_dirty = false;
        // element index
        for x in 0..U { for y in 0..U {
            if le_new.contains([x as u32, y as u32]) || le_old.contains([x as u32, y as u32]) {
                m.le_p_element_index.entry(x as u32).or_default().push([x as u32, y as u32]);
                if x != y { m.le_p_element_index.entry(y as u32).or_default().push([x as u32, y as u32]); }
            }
        }}
        // semi-naive invariant on old part: old x old transitive closedness in (new u old)
        for x in 0..U { for y in 0..U { for z in 0..U {
            let (x, y, z) = (x as u32, y as u32, z as u32);
            if le_old.contains([x, y]) && le_old.contains([y, z]) {
                kani::assume(le_old.contains([x, z]) || le_new.contains([x, z]));
            }
        }}}

        let calls = Cell::new(0u32);
        let r = m.close_until(|_| { let c = calls.get(); calls.set(c + 1); c >= 1 });
        assert!(r);
        // after one iteration: everything that was there is old or new; old x old closed.
        assert!(same2(&m.le_new_order_1_0, &transpose(&m.le_new_order_0_1)));
        assert!(same2(&m.le_old_order_1_0, &transpose(&m.le_old_order_0_1)));
        for x in 0..U { for y in 0..U { for z in 0..U {
            let (x, y, z) = (x as u32, y as u32, z as u32);
            if m.le_old_order_0_1.contains([x, y]) && m.le_old_order_0_1.contains([y, z]) {
                assert!(m.le(P(x), P(z)));
            }
        }}}
        std::mem::forget(m);
    }
}
