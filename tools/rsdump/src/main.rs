// rsdump: parse Rust source files with syn and dump a JSON AST (items, bodies, patterns,
// expressions, types) for the Python symbolic executor `gensym`.
// Usage: rsdump <file.rs>...   -> prints one JSON object {"files": {path: [items]}}
// Any syntax node not covered is dumped as {"k": "Unsupported", "what": .., "src": ..}: gensym
// aborts with exit 2 if it ever has to *execute* such a node (never silently skipped).
use proc_macro2::Span;
use quote::ToTokens;
use serde_json::{json, Value};
use syn::*;

fn src<T: ToTokens>(t: &T) -> String {
    t.to_token_stream().to_string()
}
fn line(sp: Span) -> usize {
    sp.start().line
}
fn unsupported<T: ToTokens>(what: &str, t: &T) -> Value {
    json!({"k": "Unsupported", "what": what, "src": src(t)})
}

fn path_v(p: &Path) -> Value {
    let segs: Vec<Value> = p
        .segments
        .iter()
        .map(|s| {
            let args: Vec<Value> = match &s.arguments {
                PathArguments::None => vec![],
                PathArguments::AngleBracketed(a) => a
                    .args
                    .iter()
                    .map(|g| match g {
                        GenericArgument::Type(t) => ty(t),
                        GenericArgument::Lifetime(l) => json!({"k": "Lifetime", "name": l.ident.to_string()}),
                        other => unsupported("generic-arg", other),
                    })
                    .collect(),
                PathArguments::Parenthesized(a) => vec![unsupported("paren-args", a)],
            };
            json!({"name": s.ident.to_string(), "args": args})
        })
        .collect();
    json!(segs)
}

fn ty(t: &Type) -> Value {
    match t {
        Type::Path(p) => json!({"k": "Path", "segs": path_v(&p.path), "src": src(t)}),
        Type::Reference(r) => json!({"k": "Ref", "mut": r.mutability.is_some(), "elem": ty(&r.elem)}),
        Type::Array(a) => json!({"k": "Array", "elem": ty(&a.elem), "len": expr(&a.len)}),
        Type::Slice(a) => json!({"k": "Slice", "elem": ty(&a.elem)}),
        Type::Tuple(tu) => json!({"k": "Tuple", "elems": tu.elems.iter().map(ty).collect::<Vec<_>>()}),
        Type::Paren(p) => ty(&p.elem),
        Type::ImplTrait(_) => json!({"k": "ImplTrait", "src": src(t)}),
        Type::Infer(_) => json!({"k": "Infer"}),
        other => json!({"k": "Other", "src": src(other)}),
    }
}

fn pat(p: &Pat) -> Value {
    match p {
        Pat::Ident(i) => json!({"k": "Ident", "name": i.ident.to_string(), "mut": i.mutability.is_some(),
            "by_ref": i.by_ref.is_some(), "sub": i.subpat.as_ref().map(|(_, s)| pat(s))}),
        Pat::Wild(_) => json!({"k": "Wild"}),
        Pat::Tuple(t) => json!({"k": "Tuple", "elems": t.elems.iter().map(pat).collect::<Vec<_>>()}),
        Pat::Slice(t) => json!({"k": "Slice", "elems": t.elems.iter().map(pat).collect::<Vec<_>>()}),
        Pat::TupleStruct(t) => json!({"k": "TupleStruct", "path": path_v(&t.path),
            "elems": t.elems.iter().map(pat).collect::<Vec<_>>()}),
        Pat::Struct(s) => json!({"k": "Struct", "path": path_v(&s.path), "rest": s.rest.is_some(),
            "fields": s.fields.iter().map(|f| json!({"member": member(&f.member), "pat": pat(&f.pat)})).collect::<Vec<_>>()}),
        Pat::Path(pp) => json!({"k": "Path", "path": path_v(&pp.path)}),
        Pat::Type(t) => json!({"k": "Type", "pat": pat(&t.pat), "ty": ty(&t.ty)}),
        Pat::Reference(r) => json!({"k": "Ref", "pat": pat(&r.pat), "mut": r.mutability.is_some()}),
        Pat::Paren(pp) => pat(&pp.pat),
        Pat::Lit(l) => json!({"k": "Lit", "lit": lit(&l.lit)}),
        Pat::Or(o) => json!({"k": "Or", "cases": o.cases.iter().map(pat).collect::<Vec<_>>()}),
        Pat::Rest(_) => json!({"k": "Rest"}),
        other => unsupported("pat", other),
    }
}

fn member(m: &Member) -> Value {
    match m {
        Member::Named(i) => json!(i.to_string()),
        Member::Unnamed(i) => json!(i.index),
    }
}

fn lit(l: &Lit) -> Value {
    match l {
        Lit::Int(i) => json!({"k": "Int", "v": i.base10_digits(), "suffix": i.suffix()}),
        Lit::Bool(b) => json!({"k": "Bool", "v": b.value}),
        Lit::Str(s) => json!({"k": "Str", "v": s.value()}),
        Lit::Char(c) => json!({"k": "Char", "v": c.value().to_string()}),
        Lit::Byte(b) => json!({"k": "Byte", "v": b.value()}),
        other => json!({"k": "Other", "src": src(other)}),
    }
}

fn block(b: &Block) -> Value {
    json!(b.stmts.iter().map(stmt).collect::<Vec<_>>())
}

fn stmt(s: &Stmt) -> Value {
    match s {
        Stmt::Local(l) => {
            let (init, els) = match &l.init {
                Some(i) => (Some(expr(&i.expr)), i.diverge.as_ref().map(|(_, e)| expr(e))),
                None => (None, None),
            };
            json!({"k": "Let", "pat": pat(&l.pat), "init": init, "else": els, "line": line(l.let_token.span)})
        }
        Stmt::Item(i) => json!({"k": "Item", "item": item(i)}),
        Stmt::Expr(e, semi) => json!({"k": "Expr", "expr": expr(e), "semi": semi.is_some()}),
        Stmt::Macro(m) => json!({"k": "Expr", "expr": mac(&m.mac), "semi": m.semi_token.is_some()}),
    }
}

fn mac(m: &Macro) -> Value {
    let name = m.path.segments.last().map(|s| s.ident.to_string()).unwrap_or_default();
    // Try to parse the arguments as a comma-separated expression list (assert!, write!, panic!, vec!, ...).
    let args: Option<Vec<Value>> = m
        .parse_body_with(punctuated::Punctuated::<Expr, Token![,]>::parse_terminated)
        .ok()
        .map(|p| p.iter().map(expr).collect());
    json!({"k": "Macro", "name": name, "args": args, "src": m.tokens.to_string()})
}

fn expr(e: &Expr) -> Value {
    let mut v = expr_inner(e);
    if let Value::Object(o) = &mut v {
        if !o.contains_key("line") {
            let sp = spanned::Spanned::span(e);
            o.insert("line".to_string(), json!(line(sp)));
        }
    }
    v
}

fn expr_inner(e: &Expr) -> Value {
    match e {
        Expr::Array(a) => json!({"k": "Array", "elems": a.elems.iter().map(expr).collect::<Vec<_>>()}),
        Expr::Assign(a) => json!({"k": "Assign", "left": expr(&a.left), "right": expr(&a.right)}),
        Expr::Binary(b) => json!({"k": "Binary", "op": src(&b.op), "left": expr(&b.left), "right": expr(&b.right)}),
        Expr::Block(b) => json!({"k": "Block", "stmts": block(&b.block), "label": b.label.as_ref().map(|l| l.name.ident.to_string())}),
        Expr::Break(b) => json!({"k": "Break", "label": b.label.as_ref().map(|l| l.ident.to_string()), "expr": b.expr.as_ref().map(|x| expr(x))}),
        Expr::Call(c) => json!({"k": "Call", "func": expr(&c.func), "args": c.args.iter().map(expr).collect::<Vec<_>>()}),
        Expr::Cast(c) => json!({"k": "Cast", "expr": expr(&c.expr), "ty": ty(&c.ty)}),
        Expr::Closure(c) => json!({"k": "Closure", "inputs": c.inputs.iter().map(pat).collect::<Vec<_>>(), "body": expr(&c.body),
            "move": c.capture.is_some()}),
        Expr::Continue(c) => json!({"k": "Continue", "label": c.label.as_ref().map(|l| l.ident.to_string())}),
        Expr::Field(f) => json!({"k": "Field", "base": expr(&f.base), "member": member(&f.member)}),
        Expr::ForLoop(f) => json!({"k": "ForLoop", "pat": pat(&f.pat), "iter": expr(&f.expr), "body": block(&f.body),
            "label": f.label.as_ref().map(|l| l.name.ident.to_string())}),
        Expr::Group(g) => expr(&g.expr),
        Expr::If(i) => json!({"k": "If", "cond": expr(&i.cond), "then": block(&i.then_branch),
            "else": i.else_branch.as_ref().map(|(_, e)| expr(e))}),
        Expr::Index(i) => json!({"k": "Index", "base": expr(&i.expr), "index": expr(&i.index)}),
        Expr::Let(l) => json!({"k": "LetCond", "pat": pat(&l.pat), "expr": expr(&l.expr)}),
        Expr::Lit(l) => json!({"k": "Lit", "lit": lit(&l.lit)}),
        Expr::Loop(l) => json!({"k": "Loop", "body": block(&l.body), "label": l.label.as_ref().map(|l| l.name.ident.to_string())}),
        Expr::Macro(m) => mac(&m.mac),
        Expr::Match(m) => json!({"k": "Match", "expr": expr(&m.expr), "arms": m.arms.iter().map(|a| json!({
            "pat": pat(&a.pat), "guard": a.guard.as_ref().map(|(_, g)| expr(g)), "body": expr(&a.body)})).collect::<Vec<_>>()}),
        Expr::MethodCall(m) => json!({"k": "MethodCall", "recv": expr(&m.receiver), "method": m.method.to_string(),
            "turbofish": m.turbofish.as_ref().map(|t| src(t)), "args": m.args.iter().map(expr).collect::<Vec<_>>()}),
        Expr::Paren(p) => expr(&p.expr),
        Expr::Path(p) => json!({"k": "Path", "segs": path_v(&p.path), "qself": p.qself.as_ref().map(|q| ty(&q.ty))}),
        Expr::Range(r) => json!({"k": "Range", "start": r.start.as_ref().map(|x| expr(x)), "end": r.end.as_ref().map(|x| expr(x)),
            "inclusive": matches!(r.limits, RangeLimits::Closed(_))}),
        Expr::Reference(r) => json!({"k": "Reference", "mut": r.mutability.is_some(), "expr": expr(&r.expr)}),
        Expr::Return(r) => json!({"k": "Return", "expr": r.expr.as_ref().map(|x| expr(x))}),
        Expr::Struct(s) => json!({"k": "Struct", "path": path_v(&s.path), "rest": s.rest.as_ref().map(|x| expr(x)),
            "fields": s.fields.iter().map(|f| json!({"member": member(&f.member), "expr": expr(&f.expr)})).collect::<Vec<_>>()}),
        Expr::Try(t) => json!({"k": "Try", "expr": expr(&t.expr)}),
        Expr::Tuple(t) => json!({"k": "Tuple", "elems": t.elems.iter().map(expr).collect::<Vec<_>>()}),
        Expr::Unary(u) => json!({"k": "Unary", "op": src(&u.op), "expr": expr(&u.expr)}),
        Expr::While(w) => json!({"k": "While", "cond": expr(&w.cond), "body": block(&w.body),
            "label": w.label.as_ref().map(|l| l.name.ident.to_string())}),
        Expr::Unsafe(u) => json!({"k": "Block", "stmts": block(&u.block), "label": null, "unsafe": true}),
        other => unsupported("expr", other),
    }
}

fn attrs(a: &[Attribute]) -> Value {
    json!(a.iter().map(|x| src(&x.meta)).collect::<Vec<_>>())
}

fn fields(f: &Fields) -> Value {
    match f {
        Fields::Named(n) => json!({"k": "Named", "fields": n.named.iter().map(|x| json!({
            "name": x.ident.as_ref().unwrap().to_string(), "ty": ty(&x.ty), "pub": matches!(x.vis, Visibility::Public(_))})).collect::<Vec<_>>()}),
        Fields::Unnamed(u) => json!({"k": "Unnamed", "fields": u.unnamed.iter().map(|x| json!({"ty": ty(&x.ty)})).collect::<Vec<_>>()}),
        Fields::Unit => json!({"k": "Unit"}),
    }
}

fn sig(s: &Signature) -> Value {
    let inputs: Vec<Value> = s
        .inputs
        .iter()
        .map(|a| match a {
            FnArg::Receiver(r) => json!({"k": "SelfArg", "ref": r.reference.is_some(), "mut": r.mutability.is_some()}),
            FnArg::Typed(t) => json!({"k": "Typed", "pat": pat(&t.pat), "ty": ty(&t.ty)}),
        })
        .collect();
    let output = match &s.output {
        ReturnType::Default => Value::Null,
        ReturnType::Type(_, t) => ty(t),
    };
    json!({"name": s.ident.to_string(), "inputs": inputs, "output": output,
        "generics": src(&s.generics), "line": line(s.ident.span())})
}

fn vis(v: &Visibility) -> Value {
    match v {
        Visibility::Public(_) => json!("pub"),
        Visibility::Restricted(r) => json!(src(r)),
        Visibility::Inherited => json!(""),
    }
}

fn item(i: &Item) -> Value {
    match i {
        Item::Fn(f) => json!({"k": "Fn", "vis": vis(&f.vis), "attrs": attrs(&f.attrs), "sig": sig(&f.sig), "body": block(&f.block)}),
        Item::Struct(s) => json!({"k": "Struct", "vis": vis(&s.vis), "attrs": attrs(&s.attrs), "name": s.ident.to_string(),
            "generics": src(&s.generics), "fields": fields(&s.fields)}),
        Item::Enum(e) => json!({"k": "Enum", "vis": vis(&e.vis), "attrs": attrs(&e.attrs), "name": e.ident.to_string(),
            "variants": e.variants.iter().map(|v| json!({"name": v.ident.to_string(), "fields": fields(&v.fields)})).collect::<Vec<_>>()}),
        Item::Impl(im) => json!({"k": "Impl", "attrs": attrs(&im.attrs), "self_ty": ty(&im.self_ty),
            "trait": im.trait_.as_ref().map(|(_, p, _)| src(p)), "generics": src(&im.generics),
            "items": im.items.iter().map(|ii| match ii {
                ImplItem::Fn(f) => json!({"k": "Fn", "vis": vis(&f.vis), "attrs": attrs(&f.attrs), "sig": sig(&f.sig), "body": block(&f.block)}),
                ImplItem::Type(t) => json!({"k": "Type", "name": t.ident.to_string(), "ty": ty(&t.ty)}),
                ImplItem::Const(c) => json!({"k": "Const", "name": c.ident.to_string(), "ty": ty(&c.ty), "expr": expr(&c.expr)}),
                other => unsupported("impl-item", other),
            }).collect::<Vec<_>>()}),
        Item::Mod(m) => json!({"k": "Mod", "vis": vis(&m.vis), "attrs": attrs(&m.attrs), "name": m.ident.to_string(),
            "items": m.content.as_ref().map(|(_, its)| its.iter().map(item).collect::<Vec<_>>())}),
        Item::Use(u) => json!({"k": "Use", "src": src(&u.tree)}),
        Item::Const(c) => json!({"k": "Const", "name": c.ident.to_string(), "ty": ty(&c.ty), "expr": expr(&c.expr)}),
        Item::Static(c) => json!({"k": "Static", "name": c.ident.to_string(), "ty": ty(&c.ty), "expr": expr(&c.expr)}),
        Item::Type(t) => json!({"k": "TypeAlias", "name": t.ident.to_string(), "ty": ty(&t.ty)}),
        Item::ForeignMod(f) => json!({"k": "ForeignMod", "abi": f.abi.name.as_ref().map(|n| n.value()),
            "items": f.items.iter().map(|fi| match fi {
                ForeignItem::Fn(ff) => json!({"k": "Fn", "attrs": attrs(&ff.attrs), "sig": sig(&ff.sig)}),
                other => unsupported("foreign-item", other),
            }).collect::<Vec<_>>()}),
        Item::Macro(m) => json!({"k": "MacroItem", "name": src(&m.mac.path), "src": m.mac.tokens.to_string()}),
        Item::Trait(t) => json!({"k": "Trait", "name": t.ident.to_string()}),
        other => unsupported("item", other),
    }
}

fn main() {
    let mut files = serde_json::Map::new();
    for path in std::env::args().skip(1) {
        let text = std::fs::read_to_string(&path).unwrap_or_else(|e| {
            eprintln!("rsdump: cannot read {path}: {e}");
            std::process::exit(2)
        });
        let f = syn::parse_file(&text).unwrap_or_else(|e| {
            eprintln!("rsdump: cannot parse {path}: {e}");
            std::process::exit(2)
        });
        files.insert(path, json!(f.items.iter().map(item).collect::<Vec<_>>()));
    }
    println!("{}", Value::Object(files));
}
