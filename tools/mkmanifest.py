#!/usr/bin/env python3
"""Regenerates /verif/MANIFEST.json from the table below (kept next to the checks so that it stays current)."""
import json, os

VERIF = os.path.dirname(os.path.dirname(os.path.abspath(__file__)))

GEN_NOTE = ("Trusted: rustc/linking, the map interface of WBTreeMap/WBTreeSet (C14 is not decided by this family), PrefixTreeN set "
            "semantics (decided separately by the C08 check), my reference semantics of the surface language (corpus/refsem.py), "
            "the symbolic executor (validated on every run against native execution of random API scripts). Programs are sampled "
            "(kernels + seeded random programs accepted by the real compiler); states, inputs and histories are decided by the "
            "solver for universes of <= 2 (quick) / <= 3 (thorough) elements per type.")

CHECKS = {
    "C01": dict(
        technique="bounded inductive verification by SAT over predicated symbolic execution of the generated Rust (syn AST -> circuit -> kissat; z3 via SMT-LIB2 as cross-check)",
        text="For every corpus program the solver shows, for all states over the universe bound, that the semi-naive invariant "
             "(every all-old match of every reference rule stage has its conclusion present or pending) together with the structural "
             "invariants is established by new(), preserved by every public mutator and by close_until's prologue and loop body, and "
             "that `return false` is reached only in a state where every rule of an independently written reference semantics holds for "
             "every assignment (incl. single-valuedness of functions). One inductive step covers histories of any length; a failed lemma is "
             "reported only with a solver-found public API history that reproduces natively. In addition, at the rule level and for models of any "
             "size: for every stage of every reference rule the real rule module is executed on the canonical database of the stage's premise "
             "(one element per variable, all tuples new) and must push the conclusion instance (homomorphism theorem for conjunctive queries); "
             "this phase is a concrete execution, not a solver query, and also covers rules too large for the state-level lemmas.",
        design_ref="§4 C01, §9"),
    "C04": dict(
        technique="bounded inductive verification by SAT over predicated symbolic execution of the generated Rust",
        text="INV-struct / INV-canon (all index copies incl. diagonal copies, new/old partition, element index, type sets, union-find) "
             "are shown to hold at every evaluation of the close_until condition and at every return, by induction over new(), every "
             "public mutator, the prologue and one arbitrary loop iteration, for all states over the universe bound.",
        design_ref="§4 C04, §9"),
    "C07": dict(
        technique="bounded verification by SAT of one arbitrary close_until iteration (symbolic condition outcomes)",
        text="close_until returns true only in the state in which its condition just evaluated to true and false only in a closed "
             "state right after the condition failed; the state at an early return satisfies the complete loop-head invariant with no "
             "pending definitions, so that the C01 induction applies to whatever follows (resumability). Known finding F1 is reported as such.",
        design_ref="§4 C07, §9"),
}

CHECKS["C16"] = dict(
    category="translation_validation",
    technique="SAT over the symbolically executed sub-rule functions of the generated code: per-assignment enumeration count vs the age-erased query",
    text="For every sub-rule family the compiler emitted for the corpus (kernels, seeded random programs, in the thorough tier also the "
         "repository's own theories) the real generated functions are executed symbolically over arbitrary disjoint new/old tables; the "
         "solver shows that every variable assignment is enumerated exactly once if its match contains a new tuple and never otherwise, "
         "and that all sub-rules of a family are the same query once ages are erased (functionality rule: up to its symmetry). This validates "
         "the translation source rule -> semi-naive plan -> Rust text per compiled program, which is the level the property is stated at. "
         "In addition, at the rule level and independent of the model size (for matches with pairwise distinct values): on the canonical database of every "
         "reference stage's premise, with a symbolic age per premise tuple, the rule module enumerates the match exactly once iff some premise tuple is new "
         "(this phase also covers the 11-atom rule of kernel manyvars, which is too large for the table-level query).",
    design_ref="§4 C16, §9",
    note="Trusted: PrefixTreeN set semantics (C08 check), the symbolic executor (validated against native runs in the C01/C04 checks). "
         "Programs are sampled; table contents and variable assignments are decided by the solver for universes of 2 (quick) and 3 (thorough) elements.")

CHECKS["C08"] = dict(
    technique="bounded inductive verification by SAT: the real prefix_tree.rs is executed symbolically (one operation from an arbitrary valid pre-state) over abstract ordered maps",
    text="Every method of every arity of the real eqlog-runtime/src/prefix_tree.rs (insert, remove, contains, clear, iter, iter_restrictions, get, "
         "union, difference, insert_restriction, remove_restriction, mapped) is executed symbolically from an arbitrary pre-state satisfying the "
         "representation invariant, with symbolic arguments; the solver shows set-theoretic membership of the result, ascending duplicate-free "
         "iteration, exact emptiness, exact prefix lookups and the invariant again. One inductive step covers operation sequences of any length "
         "within the universe bound; counterexamples are replayed against the real runtime.",
    design_ref="§4 C08, §9",
    note="Trusted: WBTreeMap / WBTreeSet as ordered finite maps with (left, right) callbacks (C14 is not decided by this family). Outside the claim: "
         "clone independence / structure sharing, and invariant breaking through get_mut (documented in the source). Universe: 3 keys for arity <= 2 (quick) / <= 3 (thorough), 2 keys above; in the quick tier the point operations (insert, remove, contains, clear, iter, get, iter_restrictions) cover arities 0-9, the set-algebra operations stop at arity 5; `mapped` is decided for arities <= 4 (quick) / <= 6 (thorough) only (arities 7-9 did not finish within 20 min per query).")

CHECKS["C05"] = dict(
    technique="bounded verification by SAT of the generated API functions (symbolic state and arguments) + interpretation of the real unification.rs; Kani (CBMC) on unification.rs in the thorough tier",
    text="For every public mutator and query of every corpus program, from every state satisfying the between-closes invariant and with "
         "symbolic arguments, the solver shows the functional contract of the property: immediate visibility of insert_ through point query and "
         "iterator (once) when nothing was equated since the last close, define_ = existing value or exactly one fresh element, new_ = fresh id, "
         "equate_ = exactly the generated equivalence (and no other mutator changes equality), root_ idempotent / inside the class / identity on "
         "unallocated ids. The union-find itself (root, root_const, union_roots_into of the real unification.rs) is decided from an arbitrary forest, "
         "and again by Kani (4 elements, 3 symbolic unions) in the thorough tier. Violations are reported with a close-free public history replayed "
         "natively against a reference model of the property.",
    design_ref="§4 C05, §9")

CHECKS["C06"] = dict(
    technique="bounded inductive verification by SAT of one arbitrary close_until iteration and the prologue: no allocation, exact is_dirty, strictly decreasing lexicographic ranking function",
    text="For every corpus program without `!` the solver shows, from every state over the universe bound that satisfies the loop-head invariant, "
         "that one iteration of the generated close_until (and its prologue) allocates no element and creates no equivalence class, that is_dirty() "
         "is exact (true iff a new tuple, an uprooted element or the empty-join flag exists), and that an iteration that goes round the loop again "
         "strictly decreases the lexicographic measure (set of roots, set of tuples not yet old, empty-join flag). Hence close() terminates within "
         "(U+1)*(sum U^arity+1)*2 iterations on every model with at most U elements per type and never increases the number of elements. "
         "A failed lemma is reported only with a solver-found public history whose native close() allocates, creates a class, panics or does not terminate.",
    design_ref="§4 C06, §9")

CHECKS["C15"] = dict(
    technique="bounded inductive verification by SAT: enum invariant over new / every public mutator / prologue / one close_until iteration, and the real <enum>_case / <enum>_cases / new_<enum> functions executed symbolically under it",
    text="For every corpus program with enum types the solver shows, for all states over the universe bound, that INV-enum (every allocated element "
         "of an enum type is, modulo the current equalities, the value of a row of some constructor graph) holds after new() and is preserved by every "
         "public mutator (so the API offers no call that creates an enum element other than through a constructor), by close_until's prologue and by "
         "one arbitrary loop iteration; and that on a closed state satisfying it <enum>_case(el) reaches no unwrap on None, returns a constructor whose "
         "application to the returned arguments equals el, every item of <enum>_cases does, and new_<enum>(c) followed by <enum>_cases contains c up to "
         "equality. A failed lemma is reported only with a solver-found public history after which the native <enum>_case panics or disagrees. "
         "The compile-time half (no rule may define a non-constructor term of enum type) is outside this claim.",
    design_ref="§4 C15, §9")

CHECKS["C19"] = dict(
    category="translation_validation",
    technique="SAT equivalence (miter) of the symbolically executed rule entry functions of the component sources vs the embedded submodules, plus syn-AST comparison of environment structs, call-site bindings, extern declarations / exported symbols and the remaining module text between the two builds",
    text="For every corpus program the real compiler is run in both build types (the component build with the real rustc and the runtime rlib built "
         "from /repo). (a) every exported rule function of every component file and of the corresponding embedded submodule is executed symbolically on "
         "the same arbitrary new/old tables and the solver shows that both push the same tuples under the same conditions in the same order; (b) the "
         "environment struct is declared identically (names, types, order) in the component file, the submodule and both module texts, and the struct "
         "literal at the call site binds every field exactly once to the model / delta field of the same name and type; (c) exported #[no_mangle] names "
         "and imported link_names coincide one to one with matching signatures and the theory prefix; (d) the module text without rule submodules is "
         "AST-identical between the builds, so everything decided for the module build transfers. Behavioural equality of the two builds is derived from "
         "(a)-(d); it is not re-established by running histories against linked component libraries.",
    design_ref="§4 C19, §9",
    note="Trusted: rustc, the linker, layout of repr(Rust) structs across crates, PrefixTreeN set semantics (C08). Programs are sampled (kernels, seeded "
         "random programs; thorough: also the repository's own theories); tables are decided by the solver for universes of 2 (quick) and 3 (thorough) elements.")

CHECKS["C18"] = dict(
    technique="bounded verification by SAT: the real toposort.rs is executed symbolically (syn AST -> predicated execution, queue loop unrolled #objects+1 times with bound assertion) on symbolic multigraphs and symbolic new/old splits; self-composition for split independence",
    text="The real eqlog-runtime/src/toposort.rs (morphism_toposort with its get_cod closure) is executed symbolically for every set of objects, every "
         "dom / cod relation over them (morphisms may lack either) and every new/old split of the three tables within the bound. The solver shows: no "
         "panic (unwrap on None, in-degree underflow) is reachable; with a functional cod, Err is returned iff the morphisms with dom and cod contain a "
         "directed cycle (reference: reachability matrix inside the query); on Ok every (dom row, morphism with a cod) appears exactly once with that dom "
         "and a cod of the morphism and nothing else appears; no morphism into X appears after a morphism out of X; verdict and output multiset coincide "
         "for two arbitrary splits of the same tables. Counterexamples are replayed against the real runtime; the interpreter itself is validated on "
         "random concrete inputs against the natively compiled function on every run.",
    design_ref="§4 C18, §9",
    note="Trusted: PrefixTree1/2 as ordered tuple sets (get / iter by contract; C08), BTreeMap / VecDeque semantics of the interpreter. Precondition "
         "(from the generated caller): every dom / cod value is an object. Bounds: up to 3 objects x 3 morphism ids (quick), 4 x 4 (thorough).")

CHECKS["C02"] = dict(
    technique="bounded inductive verification by SAT with a symbolic ghost model: an arbitrary model N of the reference rules and an arbitrary map h are carried through the symbolic execution of every public mutator, the prologue and one close_until iteration; the invariant `h is a homomorphism into N` is shown inductive",
    text="For every corpus program: N ranges over all structures within the universe bound that satisfy every stage of every reference rule (and "
         "single-valuedness), h over all maps from element ids to N. The solver shows that `h is a homomorphism from the current state into N` (equal "
         "elements have equal images, every row of every table is mapped into N, pending definitions are defined in N) is preserved by every public "
         "mutator whenever N satisfies the asserted fact, by close_until's prologue and by one arbitrary loop iteration; elements allocated on the way get "
         "their image by a finite disjunction and are values of function rows; define_ returns the existing value of a defined term and allocates nothing "
         "then. By induction every tuple and every equality of a closed model holds in every model (within the bound) of the rules and of the assertions, "
         "i.e. is forced. The structural invariants the induction rests on are re-checked as hypotheses. A failed lemma is reported only with a "
         "solver-found history plus a concrete certificate (a model N of the rules and of the assertions lacking a derived fact) re-checked natively. "
         "In addition, at the rule level and for models of any size: for every stage with at most 5 variables and 7 premise tuples the real rule module is "
         "run (concretely) on every sub-database of the stage's canonical database, and every tuple / equality / definition it pushes must be the conclusion "
         "of a stage of the rule under an assignment whose premise holds there; an unjustified push is reported with a native replay and the least model of "
         "the program's rules over that database (reference chase) as certificate.",
    design_ref="§4 C02, §9")

CHECKS["C03"] = dict(
    technique="SAT over the symbolically executed generated code: (a) idempotence lemma from the arbitrary state close() leaves behind, (b) self-composition of two symbolic API histories asserting the same symbolic facts in different orders / with duplicates / with intermediate close() calls",
    text="(a) For every corpus program the solver shows that every `return false` of close_until leaves a state satisfying the loop-head invariant with "
         "nothing pending and not dirty, and that from every such state (all states over the universe bound) a further close() returns in its first "
         "iteration, changes no table cell and no representative and allocates nothing. (b) For every corpus program without `!` (decided within the time "
         "budget; the evidence lists which) two symbolic public histories over the same elements assert the same k symbolic insert_/equate_ facts -- the "
         "second in a symbolic order, with one duplicate and with close() at symbolic positions in between -- and the solver shows the two closed models "
         "equal (elements, classes, tuples modulo equality); counterexamples are two scripts replayed natively. For programs with `!` history "
         "independence is not decided directly: it rests on (a) together with C01 (closed) and C02 (free).",
    design_ref="§4 C03, §9",
    note="Bounds: (a) universe 2 (quick) / 2 and 3 (thorough); (b) universe 2, k = 2 facts, <= 3 iterations per close (quick); up to universe 3 / 3 facts / 4 "
         "iterations (thorough); histories in which a close needs more iterations are outside the claim. Trusted: as for C01.")

CHECKS["C17"] = dict(
    technique="bounded history queries by SAT over the symbolically executed generated module (incl. recompute_model_indices, with the real toposort.rs interpreted): closedness under the inheritance axioms after symbolic API histories, and self-composition of histories for order independence",
    text="Inductive piece (arbitrary state, universes 2 and 3): one call of the generated recompute_model_indices (with the real toposort.rs interpreted) makes, "
         "for every member relation, new-all u old-all exactly the inheritance closure (transitive, through the application graphs) of the own copies, "
         "and own shrinks only by inherited tuples -- hence the inheritance axiom and `nothing else is inherited` hold at every condition evaluation "
         "and return. Bounded history queries: for the model-declaration programs of the corpus (a member predicate over a global type; one over a member type "
         "pushed forward through the application graph; dom / cod derived by rules) the solver shows, for all public histories within the stated plans over a universe of 2 "
         "elements per type: after close() every reference rule holds, including the inheritance axiom `dom(m)=a, cod(m)=b, R(a,xs) => R(b,m(xs))` of each "
         "member relation and the program's rules read over inherited tuples; the same after `calls; close_until stopped at a symbolic point; more calls; "
         "close()`; and (thorough tier) two histories asserting the same symbolic facts in different orders with intermediate closes end in the same model. "
         "Cyclic morphism graphs are outside the quantifier. Counterexamples are scripts replayed natively. Known finding F5 (inherited tuples born old) is "
         "keyed by role (every unsatisfied rule instance relies on an inherited tuple: the model is closed once premises are read from the own copies); each query "
         "that hits it is repeated with exactly those instances left out.",
    design_ref="§4 C17, §9",
    note="Apart from the recompute lemma this check is a bounded history search, not an inductive proof: no invariant relating ages of own / all copies to the rules has been formulated (F5 shows the obvious one is false), so histories longer "
         "than the plans (quick: 3 calls + close, 3 calls + early stop + 2 calls + close; <= 3 iterations per close) are outside the claim. Reference rules of "
         "these programs are hand-written (corpus/models/META.json). Trusted as for C01.")

CHECKS["C11"] = dict(
    technique="bounded verification by SAT of the diagnostic leaf kernels interpreted from source with a string profile (texts = symbolic byte arrays of symbolic length); counterexamples replayed against the real functions compiled into a scratch crate",
    text="Leaf kernels only. whipe_comments (build.rs), line_locations / intersecting_line_locations / <SourceDisplay as Display>::fmt (source_display.rs), "
         "Location::{is_empty,intersect} (grammar_util.rs) and the location arithmetic of From<ParseError> (error.rs) are executed symbolically for every "
         "well-formed UTF-8 text of at most L bytes over {a, /, space, LF, CR, e-acute} and every location the front end can report on the wiped text "
         "(token / node span, end of file, invalid token). The solver shows: fmt reaches no panic (explicit panic!, unwrap, slice bounds and char "
         "boundaries); every slice of the original text it prints is a complete line; some printed line contains the start of the location; "
         "whipe_comments keeps every non-blank byte at its offset and never lengthens the text. The string built-ins of the executor are validated on "
         "every run against the natively compiled real functions on random texts. NOT claimed: the lalrpop lexer / parser, the semantic checks and their "
         "location look-ups, formatting, termination of the front end -- `never panics or hangs for arbitrary source text` is therefore decided only for "
         "the diagnostic path, given the stated shape of locations.",
    design_ref="§4 C11, §9",
    note="Bounds: L = 4, 5 (quick); 4..7 (thorough). Assumed (lalrpop): token spans are non-empty ranges of non-blank chars on char boundaries inside the wiped "
         "text; the EOF location is its length. Two genuine defects found by this check were repaired (fix: commits, see known_findings.json).")

NOT_APPLICABLE = {
    "C02": "check not built yet (ghost-model soundness lemma planned, DESIGN.md §9)",
    "C03": "check not built yet (follows from C01 + C02 lemmas; idempotence lemma planned)",
    "C05": "check not built yet",
    "C06": "check not built yet",
    "C08": "check not built yet (interpretation of prefix_tree.rs planned)",
    "C09": "the oracle is rustc's type checker and linker over whole programs; no assertion over symbolic inputs to hand to a solver (DESIGN.md §6)",
    "C10": "acceptance is the fixed point of ~300 Datalog rules evaluated by a 160k-line generated model over a symbolic AST: not encodable within reach (DESIGN.md §6)",
    "C11": "check not built yet (string profile of the interpreter)",
    "C12": "file system / process-kill / rustc-subprocess protocol: a solver harness would verify hand-written stubs, not the code (DESIGN.md §6)",
    "C13": "negation is dependence on ambient nondeterminism (ASLR, hash seeds, thread schedules) which a symbolic semantics does not contain (DESIGN.md §6)",
    "C14": "pointer-rich Rc tree: Kani/CBMC produced no verdict for a single insert on 1-5 nodes within 15 min / 10 GB (DESIGN.md §2.1); a value-semantics interpretation of map.rs by the own executor was probed as well (concrete insert sequences run, but symbolic trees fail on mutation through references into merged node values: the executor's object model is built for flat structs of containers) -- neither engine of this family reaches the balanced tree within a useful bound (DESIGN.md §6)",
    "C15": "check not built yet",
    "C16": "check not built yet",
    "C17": "check not built yet",
    "C18": "check not built yet",
    "C19": "check not built yet",
    "C20": "negation is dependence on addresses, hash seeds, time or scheduling, none of which exists in a symbolic semantics (DESIGN.md §6)",
}


def main():
    checks = []
    for pid, c in sorted(CHECKS.items()):
        checks.append({
            "property_id": pid,
            "quick_cmd": "bin/check %s quick" % pid,
            "thorough_cmd": "bin/check %s thorough" % pid,
            "evidence_file": "evidence/%s.json" % pid,
            "replay_cmd_template": "python3 gensym/replay.py {path}",
            "engine": c.get("engine", "gensym"),
            "level_claimed": {"category": c.get("category", "other"), "text": c["text"], "design_ref": c["design_ref"]},
            "level_note": c.get("note", GEN_NOTE),
            "technique": c["technique"],
        })
    m = {
        "version": 1,
        "setup_cmd": "cd /verif/tools/rsdump && CARGO_NET_OFFLINE=true cargo build --release --offline",
        "hooks": {"guard": "eqlog_verif (unused)", "enable": "no source hooks are needed: the checks read /repo's sources, run its compiler and link its runtime unchanged",
                  "baseline_off_cmd": "cd /repo && cargo test --workspace --no-fail-fast --offline", "source_commits": [], "add_only": True},
        "engines": [
            {"name": "gensym", "path": "gensym/", "serves_properties": sorted(CHECKS),
             "kind_free_text": "own bounded symbolic executor: rsdump (syn) -> JSON AST of the generated modules and runtime sources -> predicated "
                               "symbolic execution into an and-inverter circuit -> SAT (kissat) / SMT-LIB2 (z3, cvc5); counterexamples become public API "
                               "scripts replayed against the real generated module linked with the real runtime"},
        ],
        "checks": checks,
        "not_applicable": [{"property_id": k, "reason": v} for k, v in sorted(NOT_APPLICABLE.items()) if k not in CHECKS],
        "notes": "Exit codes of every check: 0 = all obligations discharged (KNOWN-FINDING lines for findings listed in known_findings.json); "
                 "1 = VIOLATION found by the solver and replayed against the real build; 2 = inconclusive (never reported as success).",
    }
    json.dump(m, open(os.path.join(VERIF, "MANIFEST.json"), "w"), indent=1)


if __name__ == "__main__":
    main()
