#!/bin/bash
# usage: confirm_seed.sh <worktree> <agent out dir> <seed id>
# Confirms a seeded change independently: suite passes with it, demo fails with it and passes without it.
# Copies patch / demo / log into /verif/seeded/<id>/ and leaves the worktree clean.
set -u
WT="$1"; OUT="$2"; ID="$3"
DEST=/verif/seeded/$ID
mkdir -p "$DEST"
LOG="$DEST/confirm.log"
export CARGO_NET_OFFLINE=true
{
echo "== worktree $WT at $(git -C "$WT" rev-parse --short HEAD), $(date -u)"
cd "$WT"
git checkout -q -- . ; git apply "$OUT/patch.diff" && echo "patch applies to pinned commit"
git status --short | grep -v '^??'
echo "== tests with change"
cargo test --workspace --no-fail-fast --offline > /tmp/seed/suite_$ID.log 2>&1; rc=$?
if [ $rc -ne 0 ] && grep -q "Failed to find eqlog runtime rlib" /tmp/seed/suite_$ID.log; then
  echo "(first run hit the repository's build-script race 'Failed to find eqlog runtime rlib'; running the suite again)"
  cargo test --workspace --no-fail-fast --offline > /tmp/seed/suite_$ID.log 2>&1; rc=$?
fi
grep -E "^test result|FAILED|failed|panicked" /tmp/seed/suite_$ID.log | sort | uniq -c
echo "suite exit: $rc"
echo "== demo with change"
cargo build -p eqlog --offline -q 2>&1 | tail -n 3     # some demos use target/debug/eqlog as it is
rm -rf "$OUT/demo/target"
bash "$OUT/demo/run.sh" "$WT" 2>&1 | tail -n 15; echo "demo rc with change=${PIPESTATUS[0]}"
echo "== demo without change"
git checkout -q -- .
cargo build -p eqlog --offline -q 2>&1 | tail -n 3
bash "$OUT/demo/run.sh" "$WT" 2>&1 | tail -n 8; echo "demo rc without change=${PIPESTATUS[0]}"
git status --short | grep -v '^??'
} > "$LOG" 2>&1
cp "$OUT/patch.diff" "$DEST/patch.diff"
rm -rf "$DEST/demo"; mkdir -p "$DEST/demo"
(cd "$OUT/demo" && tar cf - --exclude=target --exclude=gen --exclude=Cargo.lock . ) | (cd "$DEST/demo" && tar xf -)
[ -f "$OUT/README.md" ] && cp "$OUT/README.md" "$DEST/AGENT_README.md"
rm -rf "$OUT/demo/target"
echo "confirmed -> $LOG"
