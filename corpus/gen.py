"""Seeded random eqlog programs over the feature set of the kernels and beyond: several types (incl. a type no relation
mentions), predicates of arity 0-3, functions of arity 1-2, an enum with a nullary and a binary constructor, premises of
1-4 atoms with shared and independent variables, wildcards, repeated variables, nested terms, `if t!`, several
then-statements (tuples, equalities, `t!`, `v := t!`), match.  Kept only if the real compiler accepts them and the
reference parser understands them (see pipeline.Corpus)."""
import random


def random_program(rng):
    ntypes = rng.choice([1, 1, 2])
    types = ["P", "Q"][:ntypes]
    lines = ["type %s;" % t for t in types]
    if rng.random() < 0.2:
        lines.append("type Tag;")          # a type no relation mentions
    preds, funcs = {}, {}
    for i in range(rng.randint(1, 3)):
        ar = rng.choice([0, 1, 2, 2, 2, 3])
        preds["r%s" % "abc"[i]] = [rng.choice(types) for _ in range(ar)]
    for i in range(rng.choice([0, 1, 1, 2])):
        funcs["f%s" % "ab"[i]] = ([rng.choice(types) for _ in range(rng.choice([1, 2, 2]))], rng.choice(types))
    enum = None
    if rng.random() < 0.2:
        a1, a2 = rng.choice(types + ["E"]), rng.choice(types + ["E"])
        enum = ("E", [("Ca", []), ("Cb", [a1, a2])])
        lines.append("enum E { Ca(), Cb(%s, %s) }" % (a1, a2))
        types = types + ["E"]
        if rng.random() < 0.7:
            preds["re"] = ["E"] + ([rng.choice(types)] if rng.random() < 0.5 else [])
    # keep the tables small: at most one relation of arity 3 (binary functions count), the others are cut down to arity 2
    big = 0
    for n in sorted(funcs):
        if len(funcs[n][0]) == 2:
            big += 1
            if big > 1:
                funcs[n] = (funcs[n][0][:1], funcs[n][1])
    for n in sorted(preds):
        if len(preds[n]) == 3:
            big += 1
            if big > 1:
                preds[n] = preds[n][:2]
    for n, a in preds.items():
        lines.append("pred %s(%s);" % (n, ", ".join(a)))
    for n, (a, r) in funcs.items():
        lines.append("func %s(%s) -> %s;" % (n, ", ".join(a), r))
    rels = dict(preds)
    for n, (a, r) in funcs.items():
        rels[n] = a + [r]
    ctor_rels = {}
    if enum:
        for cn, args in enum[1]:
            ctor_rels[cn] = args + ["E"]
    nrules = rng.randint(1, 3)
    for ri in range(nrules):
        pool = {t: ["%s%s" % (t.lower(), "abc"[i]) for i in range(3)] for t in types}
        atoms = []         # (kind, name, args)  kind in pred/func/ctor
        natoms = rng.choice([1, 2, 2, 3, 3, 4])
        for _ in range(natoms):
            cands = sorted(rels) + sorted(ctor_rels)
            n = rng.choice(cands)
            sig = rels[n] if n in rels else ctor_rels[n]
            args = [rng.choice(pool[t]) for t in sig]
            atoms.append(("pred" if n in preds else "func", n, args, sig))
        # a premise equality between two variables of the same type (bound by the atoms above)
        eqs = []
        if rng.random() < 0.15:
            vt0 = {}
            for a in atoms:
                for v, t in zip(a[2], a[3]):
                    vt0.setdefault(t, [])
                    if v not in vt0[t]:
                        vt0[t].append(v)
            cand = [vs_ for vs_ in vt0.values() if len(vs_) >= 2]
            if cand:
                a_, b_ = rng.sample(rng.choice(cand), 2)
                eqs.append((a_, b_))
        # conclusions over the premise variables
        used = [v for a in atoms for v in a[2]] + [v for e_ in eqs for v in e_]
        vs = sorted(set(used))
        vtype = {}
        for a in atoms:
            for v, t in zip(a[2], a[3]):
                vtype[v] = t
        bytype = {t: [v for v in vs if vtype[v] == t] for t in types}
        concl = []
        cvars = []
        for _ in range(rng.choice([1, 1, 2])):
            kind = rng.random()
            if kind < 0.5 and preds:
                n = rng.choice(sorted(preds))
                if all(bytype[t] for t in preds[n]):
                    args = [rng.choice(bytype[t]) for t in preds[n]]
                    concl.append("then %s(%s);" % (n, ", ".join(args)))
                    cvars += args
            elif kind < 0.7:
                t = rng.choice(types)
                if len(bytype[t]) >= 2:
                    a, b = rng.sample(bytype[t], 2)
                    concl.append("then %s = %s;" % (a, b))
                    cvars += [a, b]
            elif funcs:
                n = rng.choice(sorted(funcs))
                a, r = funcs[n]
                if all(bytype[t] for t in a):
                    args = [rng.choice(bytype[t]) for t in a]
                    cvars += args
                    if rng.random() < 0.5 or not [p for p in preds if preds[p] == [r]]:
                        concl.append("then %s(%s)!;" % (n, ", ".join(args)))
                    else:
                        p = rng.choice([p for p in preds if preds[p] == [r]])
                        concl.append("then nv := %s(%s)!; then %s(nv);" % (n, ", ".join(args), p))
        if not concl:
            continue
        # variables that occur exactly once in the whole rule become wildcards (premise only)
        count = {}
        for v in used + cvars:
            count[v] = count.get(v, 0) + 1
        prem = []
        for kind, n, args, sig in atoms:
            shown = [("_" if count[v] == 1 else v) for v in args]
            if kind == "pred":
                prem.append("if %s(%s);" % (n, ", ".join(shown)))
            else:
                res = shown[-1]
                call = "%s(%s)" % (n, ", ".join(shown[:-1]))
                if res == "_":
                    prem.append("if %s!;" % call)
                else:
                    prem.append("if %s = %s;" % (res, call))
        prem += ["if %s = %s;" % e_ for e_ in eqs]
        lines.append("rule r%s { %s %s }" % ("xyz"[ri], " ".join(prem), " ".join(concl)))
    if enum and rng.random() < 0.6 and preds:
        unary = [p for p in preds if len(preds[p]) == 1]
        if unary:
            p = rng.choice(unary)
            t = preds[p][0]
            a1, a2 = enum[1][1][1]
            bind = ["xa", "xb"]
            usable = [b for b, ty in zip(bind, (a1, a2)) if ty == t]
            if usable:
                keep = rng.choice(usable)
                pats = [b if b == keep else "_" for b in bind]
                lines.append("rule rm { if e: E; match e { Ca() => {} Cb(%s, %s) => { then %s(%s); } } }" % (pats[0], pats[1], p, keep))
    if not any(l.startswith("rule") for l in lines):
        return None
    # size bound (the lemma encodings grow with the number of table cells and of rule instances): at most 4 relations
    # (constructors included) with a total arity of at most 9
    ars = [len(a) for a in preds.values()] + [len(a) + 1 for a, _ in funcs.values()] + ([len(a) + 1 for _, a in enum[1]] if enum else [])
    if len(ars) > 4 or sum(ars) > 9:
        return None
    if enum and (ntypes > 1 or sum(ars) > 8 or sum(1 for a in ars if a >= 3) > 1):
        return None           # three element types plus an enum make the state space too large for the quick tier
    return "\n".join(lines) + "\n"


def decorate(text, rng2):
    """post-hoc widening that leaves the main random stream (and so the other programs of a seed) untouched: one rule gets
    (T1) an explicit type atom on a fresh variable plus a premise equality tying it to a bound variable (`if zz: P; ...;
    if pa = zz;`), or (T2) a diagonal atom over a fresh variable (`if ra(zz, zz);`)"""
    import re
    lines = text.split("\n")
    sigs = {}
    for l in lines:
        m = re.match(r"pred (\w+)\((.*)\);", l)
        if m:
            sigs[m.group(1)] = [a.strip() for a in m.group(2).split(",") if a.strip()]
    idx = [i for i, l in enumerate(lines) if l.startswith("rule ") and "match" not in l]
    if not idx:
        return text
    i = rng2.choice(idx)
    head, body = lines[i].split("{", 1)
    stmts = [st.strip() for st in body.rsplit("}", 1)[0].split(";") if st.strip()]
    prem = [st for st in stmts if st.startswith("if ")]
    concl = [st for st in stmts if not st.startswith("if ")]
    tname = {"p": "P", "q": "Q", "e": "E"}
    pvars = sorted(set(v for st in prem for v in re.findall(r"\b[pqe][abc]\b", st)))
    diag = sorted(n for n, a in sigs.items() if len(a) == 2 and a[0] == a[1])
    if rng2.random() < 0.5 and pvars:
        x = rng2.choice(pvars)
        prem.insert(rng2.randint(0, len(prem)), "if zz: %s" % tname[x[0]])
        prem.append("if %s = zz" % x)
    elif diag:
        n = rng2.choice(diag)
        prem.insert(rng2.randint(0, len(prem)), "if %s(zz, zz)" % n)
    else:
        return text
    lines[i] = "%s{ %s; }" % (head, "; ".join(prem + concl))
    return "\n".join(lines)


def random_programs(seed, n):
    rng = random.Random(seed)
    out = [random_program(rng) for _ in range(30 * n)]
    out = [p for p in out if p is not None]
    rng2 = random.Random(seed * 7919 + 13)
    return [(decorate(p, rng2) if rng2.random() < 0.3 else p) for p in out]
