"""Seeded random eqlog programs over the feature set of the kernels (types, preds, funcs, joins, repeated
variables, nested terms, then-equalities, `!`).  Kept only if the real compiler accepts them (see pipeline.Corpus)."""
import random

VARS = ["x", "y", "z", "w"]


def random_program(rng):
    ntypes = rng.choice([1, 1, 2])
    types = ["P", "Q"][:ntypes]
    lines = ["type %s;" % t for t in types]
    preds = {}
    funcs = {}
    for i in range(rng.randint(1, 2)):
        ar = rng.choice([1, 2, 2, 3])
        preds["r%s" % "abc"[i]] = [rng.choice(types) for _ in range(ar)]
    for i in range(rng.randint(0, 1)):
        funcs["f%s" % "abc"[i]] = ([rng.choice(types) for _ in range(rng.choice([1, 1, 2]))], rng.choice(types))
    for n, a in preds.items():
        lines.append("pred %s(%s);" % (n, ", ".join(a)))
    for n, (a, r) in funcs.items():
        lines.append("func %s(%s) -> %s;" % (n, ", ".join(a), r))
    rels = dict(preds)
    for n, (a, r) in funcs.items():
        rels[n] = a + [r]
    for ri in range(rng.randint(1, 2)):
        # premise: 1-3 atoms over a small variable pool per type
        vt = {}
        pool = {t: [v + t.lower() for v in VARS[:3]] for t in types}
        prem = []
        used = []
        for _ in range(rng.randint(1, 3)):
            n = rng.choice(sorted(rels))
            args = [rng.choice(pool[t]) for t in rels[n]]
            used += args
            if n in preds:
                prem.append("if %s(%s);" % (n, ", ".join(args)))
            else:
                prem.append("if %s = %s(%s);" % (args[-1], n, ", ".join(args[:-1])))
        # every variable must occur twice somewhere in the rule or be replaced by a wildcard: conclusions reuse them
        vs = sorted(set(used))
        concl = []
        kind = rng.random()
        bytype = {t: [v for v in vs if v.endswith(t.lower())] for t in types}
        if kind < 0.5:
            n = rng.choice(sorted(preds))
            if all(bytype[t] for t in preds[n]):
                concl.append("then %s(%s);" % (n, ", ".join(rng.choice(bytype[t]) for t in preds[n])))
        elif kind < 0.75:
            t = rng.choice(types)
            if len(bytype[t]) >= 2:
                a, b = rng.sample(bytype[t], 2)
                concl.append("then %s = %s;" % (a, b))
        elif funcs:
            n = rng.choice(sorted(funcs))
            a, r = funcs[n]
            if all(bytype[t] for t in a):
                concl.append("then %s(%s)!;" % (n, ", ".join(rng.choice(bytype[t]) for t in a)))
        if not concl:
            continue
        lines.append("rule r%s { %s %s }" % ("xyz"[ri], " ".join(prem), " ".join(concl)))
    return "\n".join(lines) + "\n"


def random_programs(seed, n):
    rng = random.Random(seed)
    return [random_program(rng) for _ in range(4 * n)][: 4 * n]
