"""Reference semantics of eqlog rules, independent of the compiler.

A ~250-line recursive-descent parser for the surface language (types, enums, preds, funcs, rules
with if / then / branch / match, nested terms, wildcards, `!`, `:=`; no model declarations) and a
flattener that turns every rule into *paths*: linear sequences of items over variables,

    ('if',   atom)            atom = ('rel', name, [vars]) | ('eq', a, b) | ('type', v, T)
    ('then', atom)            atom = ('rel', name, [vars]) | ('eq', a, b) | ('def', f, [vars], w)

where nested terms have been replaced by variables tied to graph atoms ('rel', f, args + [w]).
`('def', f, args, w)` is a `t!` conclusion; w names the value for the items that follow.  A
`then u = f(s)` whose right side is not denoted yet becomes ('then', ('rel', f, s + [u])).

The reading implemented is the *literal* one of property C01: a then-item must hold for every
assignment under which all if-items before it hold (plus the graph atoms of earlier `!` items,
whose value variable is universally quantified like any other).
"""
import re

TOK = re.compile(r"\s*(?:(//[^\n]*)|([A-Za-z][A-Za-z0-9'_]*)|(:=|=>|->|[{}();,=!:_.@|]))")


class ParseError(Exception):
    pass


def tokenize(src):
    pos = 0
    out = []
    while True:
        m = TOK.match(src, pos)
        if not m:
            if src[pos:].strip() == "":
                return out
            raise ParseError("cannot tokenize at %r" % src[pos:pos + 20])
        pos = m.end()
        if m.group(1):
            continue
        out.append(m.group(2) or m.group(3))


class Theory:
    def __init__(self):
        self.types = []
        self.enums = {}      # enum type -> [ctor names]
        self.preds = {}      # name -> [arg types]
        self.funcs = {}      # name -> ([arg types], result type)   (constructors included)
        self.rules = []      # (name, [stmt])

    def rel_types(self, name):
        if name in self.preds:
            return self.preds[name]
        a, r = self.funcs[name]
        return a + [r]


class P:
    def __init__(self, toks):
        self.t = toks
        self.i = 0

    def peek(self, k=0):
        return self.t[self.i + k] if self.i + k < len(self.t) else None

    def eat(self, x=None):
        tok = self.peek()
        if tok is None or (x is not None and tok != x):
            raise ParseError("expected %r, got %r at token %d" % (x, tok, self.i))
        self.i += 1
        return tok

    def ident(self):
        tok = self.eat()
        if not re.match(r"[A-Za-z]", tok):
            raise ParseError("expected identifier, got %r" % tok)
        return tok

    def term(self):
        tok = self.peek()
        if tok == "_":
            self.eat()
            return ("wild",)
        name = self.ident()
        if self.peek() == "(":
            return ("app", name, self.arglist())
        return ("var", name)

    def arglist(self):
        self.eat("(")
        args = []
        while self.peek() != ")":
            args.append(self.term())
            if self.peek() == ",":
                self.eat()
        self.eat(")")
        return args

    def stmt(self):
        tok = self.peek()
        if tok == "if":
            self.eat()
            t = self.term()
            nxt = self.peek()
            if nxt == "=":
                self.eat()
                a = ("eq", t, self.term())
            elif nxt == "!":
                self.eat()
                a = ("defd", t)
            elif nxt == ":":
                self.eat()
                a = ("type", t, self.ident())
            else:
                if t[0] != "app":
                    raise ParseError("bad if atom")
                a = ("pred", t[1], t[2])
            self.eat(";")
            return ("if", a)
        if tok == "then":
            self.eat()
            t = self.term()
            nxt = self.peek()
            if nxt == ":=":
                self.eat()
                t2 = self.term()
                self.eat("!")
                a = ("defd", t2, t)
            elif nxt == "=":
                self.eat()
                a = ("eq", t, self.term())
            elif nxt == "!":
                self.eat()
                a = ("defd", t, None)
            else:
                a = ("pred", t[1], t[2])
            self.eat(";")
            return ("then", a)
        if tok == "branch":
            self.eat()
            blocks = [self.block()]
            while self.peek() == "along":
                self.eat()
                blocks.append(self.block())
            return ("branch", blocks)
        if tok == "match":
            self.eat()
            t = self.term()
            self.eat("{")
            cases = []
            while self.peek() != "}":
                pat = self.term()
                self.eat("=>")
                cases.append((pat, self.block()))
            self.eat("}")
            return ("match", t, cases)
        raise ParseError("unexpected token %r in rule body" % tok)

    def block(self):
        self.eat("{")
        out = []
        while self.peek() != "}":
            out.append(self.stmt())
        self.eat("}")
        return out

    def argdecls(self):
        self.eat("(")
        out = []
        while self.peek() != ")":
            n = self.ident()
            if self.peek() == ":":
                self.eat()
                n = self.ident()
            out.append(n)
            if self.peek() == ",":
                self.eat()
        self.eat(")")
        return out

    def theory(self):
        th = Theory()
        anon = 0
        while self.peek() is not None:
            tok = self.eat()
            if tok == "type":
                th.types.append(self.ident())
                self.eat(";")
            elif tok == "pred":
                n = self.ident()
                th.preds[n] = self.argdecls()
                self.eat(";")
            elif tok == "func":
                n = self.ident()
                a = self.argdecls()
                self.eat("->")
                th.funcs[n] = (a, self.ident())
                self.eat(";")
            elif tok == "enum":
                n = self.ident()
                th.types.append(n)
                th.enums[n] = []
                self.eat("{")
                while self.peek() != "}":
                    cn = self.ident()
                    th.funcs[cn] = (self.argdecls(), n)
                    th.enums[n].append(cn)
                    if self.peek() == ",":
                        self.eat()
                self.eat("}")
            elif tok == "rule":
                name = None
                if self.peek() != "{":
                    name = self.ident()
                if name is None:
                    name = "anonymous_rule_%d" % anon
                    anon += 1
                th.rules.append((name, self.block()))
            else:
                raise ParseError("unexpected top-level token %r" % tok)
        return th


def parse(src):
    return P(tokenize(src)).theory()


# ---------------------------------------------------------------------------------------------
class Path:
    """flattening state of one path through a rule"""

    def __init__(self, th):
        self.th = th
        self.items = []
        self.uf = {}          # variable -> representative (premise equalities merge variables)
        self.terms = {}       # (f, args) -> value variable, modulo self.uf
        self.vtype = {}
        self.n = 0
        self.scope = [{}]     # surface variable name -> flat variable
        self.bound = set()    # flat variables that occur in some earlier item

    def clone(self):
        p = Path(self.th)
        p.items = list(self.items)
        p.uf = dict(self.uf)
        p.terms = dict(self.terms)
        p.vtype = dict(self.vtype)
        p.n = self.n
        p.scope = [dict(s) for s in self.scope]
        p.bound = set(self.bound)
        return p

    def find(self, v):
        while self.uf.get(v, v) != v:
            v = self.uf[v]
        return v

    def fresh(self, hint, ty=None):
        self.n += 1
        v = "%s%d" % (hint, self.n)
        if ty:
            self.vtype[v] = ty
        return v

    def lookup(self, name):
        for s in reversed(self.scope):
            if name in s:
                return self.find(s[name])
        return None

    def settype(self, v, ty):
        v = self.find(v)
        if ty is None:
            return
        old = self.vtype.get(v)
        if old is not None and old != ty:
            raise ParseError("conflicting types %s / %s for %s" % (old, ty, v))
        self.vtype[v] = ty

    def var(self, name, ty, introduce):
        v = self.lookup(name)
        if v is None:
            if not introduce:
                raise ParseError("variable %s introduced in a then statement" % name)
            v = self.fresh(name + "_")
            self.scope[-1][name] = v
        self.settype(v, ty)
        return self.find(v)

    def term_key(self, f, args):
        return (f, tuple(self.find(a) for a in args))

    def rekey(self):
        new = {}
        for (f, args), w in self.terms.items():
            k = (f, tuple(self.find(a) for a in args))
            w = self.find(w)
            if k in new and self.find(new[k]) != w:
                # congruence: same function on merged arguments => the value variables denote the same
                # element in every functional model; they are merged like a premise equality
                self.union(new[k], w, congruence=True)
                w = self.find(w)
            new[k] = w
        self.terms = new

    def union(self, a, b, congruence=False):
        a, b = self.find(a), self.find(b)
        if a == b:
            return
        ta, tb = self.vtype.get(a), self.vtype.get(b)
        if ta and tb and ta != tb:
            raise ParseError("equating variables of different types")
        self.uf[b] = a
        if tb and not ta:
            self.vtype[a] = tb
        self.rekey()

    # ---- terms in if-position: every application becomes a graph atom in the premise
    def if_term(self, t, ty):
        if t[0] == "wild":
            return self.fresh("wild_", ty)
        if t[0] == "var":
            return self.var(t[1], ty, introduce=True)
        f, args = t[1], t[2]
        atys, rty = self.th.funcs[f]
        if len(args) != len(atys):
            raise ParseError("wrong argument count for " + f)
        avs = [self.if_term(a, aty) for a, aty in zip(args, atys)]
        k = self.term_key(f, avs)
        if k in self.terms:
            return self.find(self.terms[k])
        w = self.fresh(f + "_", rty)
        self.terms[k] = w
        self.items.append(("if", ("rel", f, list(k[1]) + [w])))
        return w

    # ---- terms in then-position must already be denoted (the compiler's surjectivity check)
    def then_term(self, t, ty, allow_new_app=False):
        if t[0] == "wild":
            raise ParseError("wildcard in then statement")
        if t[0] == "var":
            v = self.lookup(t[1])
            if v is None:
                raise ParseError("variable %s introduced in a then statement" % t[1])
            self.settype(v, ty)
            return v
        f, args = t[1], t[2]
        atys, rty = self.th.funcs[f]
        avs = [self.then_term(a, aty) for a, aty in zip(args, atys)]
        k = self.term_key(f, avs)
        if k in self.terms:
            return self.find(self.terms[k])
        if allow_new_app:
            return ("newapp", f, list(k[1]))
        raise ParseError("then statement mentions the undefined term %s(..)" % f)

    def canon_items(self):
        """items with variables replaced by their representatives"""
        out = []
        for kind, a in self.items:
            if a[0] == "rel":
                out.append((kind, ("rel", a[1], [self.find(v) for v in a[2]])))
            elif a[0] == "eq":
                out.append((kind, ("eq", self.find(a[1]), self.find(a[2]))))
            elif a[0] == "type":
                out.append((kind, ("type", self.find(a[1]), a[2])))
            elif a[0] == "def":
                out.append((kind, ("def", a[1], [self.find(v) for v in a[2]], self.find(a[3]))))
        return out


def flatten_block(paths, stmts, th):
    for s in stmts:
        if s[0] == "if":
            for p in paths:
                a = s[1]
                if a[0] == "pred":
                    tys = th.preds[a[1]]
                    if len(tys) != len(a[2]):
                        raise ParseError("wrong argument count for " + a[1])
                    vs = [p.if_term(t, ty) for t, ty in zip(a[2], tys)]
                    p.items.append(("if", ("rel", a[1], vs)))
                elif a[0] == "eq":
                    l = p.if_term(a[1], None)
                    r = p.if_term(a[2], p.vtype.get(p.find(l)))
                    p.settype(l, p.vtype.get(p.find(r)))
                    p.union(l, r)
                elif a[0] == "defd":
                    p.if_term(a[1], None)
                elif a[0] == "type":
                    v = p.if_term(a[1], a[2])
                    p.items.append(("if", ("type", v, a[2])))
        elif s[0] == "then":
            for p in paths:
                a = s[1]
                if a[0] == "pred":
                    tys = th.preds[a[1]]
                    vs = [p.then_term(t, ty) for t, ty in zip(a[2], tys)]
                    p.items.append(("then", ("rel", a[1], vs)))
                elif a[0] == "eq":
                    l = p.then_term(a[1], None, allow_new_app=True)
                    r = p.then_term(a[2], None, allow_new_app=True)
                    if isinstance(l, tuple) and isinstance(r, tuple):
                        raise ParseError("then equation between two undefined terms")
                    if isinstance(l, tuple) or isinstance(r, tuple):
                        app, u = (l, r) if isinstance(l, tuple) else (r, l)
                        _, f, avs = app
                        p.settype(u, th.funcs[f][1])
                        p.items.append(("then", ("rel", f, avs + [p.find(u)])))
                        p.terms[p.term_key(f, avs)] = p.find(u)
                    else:
                        p.items.append(("then", ("eq", l, r)))
                elif a[0] == "defd":
                    t = a[1]
                    if t[0] != "app":
                        raise ParseError("then !: not an application")
                    f, args = t[1], t[2]
                    atys, rty = th.funcs[f]
                    avs = [p.then_term(x, ty) for x, ty in zip(args, atys)]
                    k = p.term_key(f, avs)
                    if k in p.terms:
                        w = p.find(p.terms[k])       # already denoted: nothing new is forced
                    else:
                        w = p.fresh(f + "_", rty)
                        p.terms[k] = w
                        p.items.append(("then", ("def", f, list(k[1]), w)))
                    if a[2] is not None:
                        if a[2][0] != "var" or p.lookup(a[2][1]) is not None:
                            raise ParseError(":= needs a new variable")
                        p.scope[-1][a[2][1]] = w
        elif s[0] == "branch":
            new = []
            for p in paths:
                for blk in s[1]:
                    q = p.clone()
                    q.scope.append({})
                    qs = flatten_block([q], blk, th)
                    for x in qs:
                        x.scope.pop()
                    new += qs
            paths = new
        elif s[0] == "match":
            new = []
            for p in paths:
                for pat, blk in s[2]:
                    q = p.clone()
                    e = q.if_term(s[1], None)
                    q.scope.append({})
                    if pat[0] != "app":
                        raise ParseError("match pattern must be a constructor application")
                    ctor = pat[1]
                    atys, rty = th.funcs[ctor]
                    q.settype(e, rty)
                    avs = []
                    for x, ty in zip(pat[2], atys):
                        if x[0] == "wild":
                            avs.append(q.fresh("wild_", ty))
                        elif x[0] == "var":
                            if q.lookup(x[1]) is not None:
                                raise ParseError("match pattern variable is not fresh")
                            avs.append(q.var(x[1], ty, introduce=True))
                        else:
                            raise ParseError("match pattern argument is an application")
                    q.items.append(("if", ("rel", ctor, avs + [q.find(e)])))
                    q.terms[q.term_key(ctor, avs)] = q.find(e)
                    qs = flatten_block([q], blk, th)
                    for x in qs:
                        x.scope.pop()
                    new += qs
            paths = new
    return paths


def infer_types(p, items):
    th = p.th
    ty = dict((p.find(v), t) for v, t in p.vtype.items())
    for kind, a in items:
        if a[0] == "rel":
            for v, t in zip(a[2], th.rel_types(a[1])):
                ty.setdefault(v, t)
        elif a[0] == "def":
            for v, t in zip(a[2] + [a[3]], th.rel_types(a[1])):
                ty.setdefault(v, t)
    return ty


def rule_paths(th, stmts):
    """list of (items, vartypes) for each path of a rule"""
    paths = flatten_block([Path(th)], stmts, th)
    out = []
    for p in paths:
        items = p.canon_items()
        tys = infer_types(p, items)
        # drop type atoms for variables that occur in a relation atom of the premise
        inrel = set()
        for kind, a in items:
            if kind == "if" and a[0] == "rel":
                inrel.update(a[2])
        items2 = []
        seen_types = set()
        for kind, a in items:
            if a[0] == "type":
                if a[1] in inrel or a[1] in seen_types:
                    continue
                seen_types.add(a[1])
            items2.append((kind, a))
        vs = set()
        for kind, a in items2:
            if a[0] == "rel":
                vs.update(a[2])
            elif a[0] == "eq":
                vs.update([a[1], a[2]])
            elif a[0] == "type":
                vs.add(a[1])
            elif a[0] == "def":
                vs.update(a[2] + [a[3]])
        for v in vs:
            if v not in tys:
                raise ParseError("undetermined type of variable " + v)
        out.append((items2, {v: tys[v] for v in vs}))
    return out


def functionality_paths(th):
    """the implicit rule of every function: f(a, x), f(a, y) => x = y"""
    out = []
    for f, (atys, rty) in th.funcs.items():
        avs = ["a%d" % i for i in range(len(atys))]
        items = [("if", ("rel", f, avs + ["x"])), ("if", ("rel", f, avs + ["y"])), ("then", ("eq", "x", "y"))]
        tys = {v: t for v, t in zip(avs, atys)}
        tys["x"] = rty
        tys["y"] = rty
        out.append(("functionality_" + f, [(items, tys)]))
    return out


def add_implicit_type_atoms(paths):
    """a variable that is bound only through premise equalities / used only in a conclusion without occurring in any premise
    relation atom ranges over the elements of its type: the compiler emits a type-set atom for it (probed: `if t = x; if u = id();
    then mul(t, u) = t` has premise ElSet(t), id(u)).  The atom is inserted before the first statement using the variable."""
    out = []
    for items, tys in paths:
        bound = set()
        new_items = []
        for kind, a in items:
            if kind == "if":
                if a[0] == "rel":
                    bound |= set(a[2])
                elif a[0] == "type":
                    bound.add(a[1])
                elif a[0] == "def":
                    bound |= set(a[2]) | {a[3]}
                new_items.append((kind, a))
                continue
            used = []
            if a[0] == "rel":
                used = list(a[2])
            elif a[0] == "eq":
                used = [a[1], a[2]]
            elif a[0] == "def":
                used = list(a[2])
            for v in used:
                if v not in bound and v in tys:
                    new_items.append(("if", ("type", v, tys[v])))
                    bound.add(v)
            new_items.append((kind, a))
            if a[0] == "def":
                bound.add(a[3])
        out.append((new_items, tys))
    return out


def reference(src):
    """parse a theory; returns (Theory, [(rule name, [(items, vartypes)])]) incl. functionality rules"""
    th = parse(src)
    rules = [(name, add_implicit_type_atoms(rule_paths(th, body))) for name, body in th.rules]
    return th, rules + functionality_paths(th)


if __name__ == "__main__":
    import sys, pprint
    th, rules = reference(open(sys.argv[1]).read())
    for name, paths in rules:
        print("rule", name)
        for items, tys in paths:
            for it in items:
                print("   ", it)
            print("    types", tys)
            print("    --")
