"""C18: eqlog_runtime::morphism_toposort returns a topological order and reports exactly the cycles.

The real eqlog-runtime/src/toposort.rs is parsed on every run and executed symbolically (closures, `?`, collect into
BTreeMap / VecDeque, `while let Some(..) = queue.pop_front()` unrolled #objects + 1 times with a bound assertion) over
contract-level PrefixTree1/2 values (ordered tuple sets: decided separately by C08).  Inputs: NO objects, NM morphism
ids, a symbolic set of objects, symbolic dom and cod tables (relations; functional where a goal says so), and a symbolic
new/old split of all three tables.  Precondition taken from the generated caller: every dom / cod value is an object
and the new and old part of each table are disjoint.

Goals (SAT, for all inputs within the bound):
  no-panic        no unwrap on None / arithmetic underflow is reachable
  verdict         Err(CycleDetected) <=> the morphisms with dom and cod contain a directed cycle (reachability matrix)
  exactly-once    Ok => every (dom row, morphism with a cod) appears exactly once, with that dom and a cod of the morphism;
                  nothing else appears; with functional dom/cod: every morphism with both appears exactly once
  order           Ok => no morphism into X appears after a morphism out of X
  split           with functional cod: the verdict and the multiset of output triples are the same for two arbitrary
                  new/old splits of the same tables (self-composition)
Counterexamples are replayed against the real runtime (a generated test crate calling eqlog_runtime::morphism_toposort).
"""
import itertools, json, os, subprocess, sys, time
import pipeline as P
from pipeline import V, terms
from terms import T, F, Circuit
from values import SetV, Unsupported, lit, int_eq, cases_of
from interp import Interp
from loader import load_program

SRC = "eqlog-runtime/src/toposort.rs"


def tables(ctx, NO, NM, tag, dom, cod, obj):
    """the six arguments for one symbolic new/old split"""
    c = ctx.c
    U = ctx.U
    ages = {}

    def split(base, name):
        new, old = {}, {}
        for t, h in base.items():
            a = ctx.fresh_bool("%s.%s.new%s" % (tag, name, list(t)))
            ages[(name, t)] = a
            new[t] = c.and2(h, a)
            old[t] = c.and2(h, -a)
        ar = len(next(iter(base)))
        return SetV(ar, new, U, frozen=True), SetV(ar, old, U, frozen=True)
    dn, do = split(dom, "dom")
    cn, co = split(cod, "cod")
    on, oo = split(obj, "obj")
    return [dn, do, cn, co, oo, on], ages     # note the parameter order of the real function: obj_old before obj_new


def run(prog, ctx, args, bound):
    I = Interp(prog, ctx, loop_bound=bound)
    ev0 = len(ctx.events)
    r = I.deref(I.call_fn(prog.fns["morphism_toposort"], T, list(args)))
    ev = ctx.events[ev0:]
    return I, r, ev


def decode_result(I, r):
    """(ok literal, [(guard, morph, dom, cod)])"""
    if not isinstance(r, V.EnumV) or set(r.alts) - {"Ok", "Err"}:
        raise Unsupported("unexpected result value %r" % (r,))
    ok = r.alts["Ok"][0] if "Ok" in r.alts else F
    items = []
    if "Ok" in r.alts:
        vec = I.deref(r.alts["Ok"][1][0])
        for g, x in I.to_iter(vec, T).items:
            x = I.deref(x)
            items.append((g, I.deref(x.f["morph"]), I.deref(x.f["dom"]), I.deref(x.f["cod"])))
    return ok, items


def build(NO, NM, functional, two_splits, src_path):
    prog = load_program([src_path])
    U = max(NO, NM)
    ctx = V.set_ctx(V.Ctx(Circuit(), U=U))
    c = ctx.c
    obj = {(a,): ctx.fresh_bool("obj[%d]" % a) for a in range(NO)}
    dom = {(a, f): ctx.fresh_bool("dom[%d,%d]" % (a, f)) for a in range(NO) for f in range(NM)}      # order_1_0: (dom(f), f)
    cod = {(f, b): ctx.fresh_bool("cod[%d,%d]" % (f, b)) for f in range(NM) for b in range(NO)}      # order_0_1: (f, cod(f))
    # pad to the universe (ids >= NO / NM do not occur)
    pre = []
    for (a, f), h in dom.items():
        pre.append(c.implies(h, obj[(a,)]))
    for (f, b), h in cod.items():
        pre.append(c.implies(h, obj[(b,)]))
    fun_dom = c.andl([-c.and2(dom[(a, f)], dom[(a2, f)]) for f in range(NM) for a in range(NO) for a2 in range(a + 1, NO)])
    fun_cod = c.andl([-c.and2(cod[(f, b)], cod[(f, b2)]) for f in range(NM) for b in range(NO) for b2 in range(b + 1, NO)])
    if functional:
        pre += [fun_dom, fun_cod]
    args1, ages1 = tables(ctx, NO, NM, "s1", dom, cod, obj)
    I, r1, ev1 = run(prog, ctx, args1, NO + 1)
    ok1, items1 = decode_result(I, r1)
    goals = []
    panic = [(msg, g) for g, k, msg in ev1 if k == "panic"]
    bound = c.orl([g for g, k, msg in ev1 if k == "bound"])
    goals += [("no-panic: " + msg, -g) for msg, g in panic]
    goals.append(("bound: the queue loop needs at most #objects + 1 iterations (and ids stay inside the universe)", -bound))
    # edges: morphism f with a dom row (a, f) and a cod
    hascod = {f: c.orl([cod[(f, b)] for b in range(NO)]) for f in range(NM)}
    edge = {(a, b): c.orl([c.and2(dom[(a, f)], cod[(f, b)]) for f in range(NM)]) for a in range(NO) for b in range(NO)}
    # reachability by repeated squaring (paths of length >= 1)
    reach = dict(edge)
    for _ in range(max(1, NO.bit_length())):
        reach = {(a, b): c.or2(reach[(a, b)], c.orl([c.and2(reach[(a, m)], reach[(m, b)]) for m in range(NO)])) for a in range(NO) for b in range(NO)}
    cyclic = c.orl([reach[(a, a)] for a in range(NO)])
    # NB with a non-functional cod the function follows only the first cod of a morphism (get_cod); the verdict goal is
    # stated for functional cod, where "the" codomain is well defined
    goals.append(("verdict: Err <=> the morphisms with dom and cod contain a directed cycle", c.implies(fun_cod, c.iff(-ok1, cyclic))))
    # exactly-once
    for a in range(NO):
        for f in range(NM):
            hits = [c.and_(g, int_eq(m, f), int_eq(d, a)) for g, m, d, _ in items1]
            cnt = V.count_lits(hits, cap=2)
            want = c.and2(dom[(a, f)], hascod[f])
            goals.append(("exactly-once: morphism %d with dom %d appears once iff it has that dom and a cod" % (f, a),
                          c.implies(ok1, int_eq(cnt, V.int_ite(want, 1, 0)))))
    for i, (g, m, d, cd) in enumerate(items1):
        right = c.orl([c.and_(int_eq(m, f), int_eq(cd, b), cod[(f, b)]) for f in range(NM) for b in range(NO)])
        goals.append(("exactly-once: output entry %d carries a codomain of its morphism" % i, c.implies(c.and2(ok1, g), right)))
    # order: no morphism into X after a morphism out of X
    for i, (gi, mi, di, ci) in enumerate(items1):
        for j, (gj, mj, dj, cj) in enumerate(items1):
            if j <= i:
                continue
            goals.append(("order: entry %d (out of X) is not followed by entry %d into X" % (i, j), c.implies(c.and_(ok1, gi, gj), -int_eq(cj, di))))
    cover = [("some input is cyclic", cyclic), ("some input is acyclic with two composable morphisms", c.and2(ok1, c.orl([c.and2(edge[(a, b)], edge[(b, d)]) for a in range(NO) for b in range(NO) for d in range(NO) if a != b and b != d]))),
             ("a morphism lacks a codomain", c.orl([c.and2(dom[(a, f)], -hascod[f]) for a in range(NO) for f in range(NM)]))]
    info = {"dom": dom, "cod": cod, "obj": obj, "ages1": ages1, "ok1": ok1, "items1": items1}
    if two_splits:
        args2, ages2 = tables(ctx, NO, NM, "s2", dom, cod, obj)
        I2, r2, ev2 = run(prog, ctx, args2, NO + 1)
        ok2, items2 = decode_result(I2, r2)
        bound2 = c.orl([g for g, k, msg in ev2 if k == "bound"])
        goals += [("no-panic (second split): " + msg, -g) for g, k, msg in ev2 if k == "panic"]
        goals.append(("split: same verdict for two new/old splits", c.implies(c.and2(fun_cod, -bound2), c.iff(ok1, ok2))))
        for a in range(NO):
            for f in range(NM):
                for b in range(NO):
                    c1 = V.count_lits([c.and_(g, int_eq(m, f), int_eq(d, a), int_eq(cd, b)) for g, m, d, cd in items1], cap=2)
                    c2 = V.count_lits([c.and_(g, int_eq(m, f), int_eq(d, a), int_eq(cd, b)) for g, m, d, cd in items2], cap=2)
                    goals.append(("split: (%d: %d -> %d) appears equally often for two new/old splits" % (f, a, b), c.implies(c.and_(fun_cod, ok1, ok2, -bound2), int_eq(c1, c2))))
        info.update(ages2=ages2, ok2=ok2, items2=items2)
    return ctx, pre, goals, cover, info


def decode_input(c, mdl, info, NO, NM):
    def tv(l):
        return c.evaluate([l], mdl)[0]
    out = {"objects": [], "dom": [], "cod": []}
    for split in ("ages1", "ages2"):
        if split not in info:
            continue
        ages = info[split]
        d = {"obj_new": [], "obj_old": [], "dom_new": [], "dom_old": [], "cod_new": [], "cod_old": []}
        for (a,), h in info["obj"].items():
            if tv(h):
                d["obj_new" if tv(ages[("obj", (a,))]) else "obj_old"].append(a)
        for t, h in info["dom"].items():
            if tv(h):
                d["dom_new" if tv(ages[("dom", t)]) else "dom_old"].append(list(t))
        for t, h in info["cod"].items():
            if tv(h):
                d["cod_new" if tv(ages[("cod", t)]) else "cod_old"].append(list(t))
        out[split] = d
    return out


NATIVE_MAIN = r'''
use eqlog_runtime::*;
fn t1(v: &[u32]) -> PrefixTree1 { let mut t = PrefixTree1::new(); for &x in v { t.insert([x]); } t }
fn t2(v: &[[u32; 2]]) -> PrefixTree2 { let mut t = PrefixTree2::new(); for &x in v { t.insert(x); } t }
fn main() {
    let a: Vec<String> = std::env::args().collect();
    let j = std::fs::read_to_string(&a[1]).unwrap();
    // minimal parser of {"obj_new": [..], "dom_new": [[a,f],..], ...} written by the check
    fn list1(j: &str, key: &str) -> Vec<u32> {
        let i = j.find(&format!("\"{}\"", key)).unwrap(); let s = &j[i..]; let b = s.find('[').unwrap(); let e = s.find(']').unwrap();
        s[b + 1..e].split(',').filter_map(|x| x.trim().parse().ok()).collect()
    }
    fn list2(j: &str, key: &str) -> Vec<[u32; 2]> {
        let i = j.find(&format!("\"{}\"", key)).unwrap(); let s = &j[i..]; let b = s.find('[').unwrap();
        let mut depth = 0; let mut e = b; for (k, ch) in s[b..].char_indices() { if ch == '[' { depth += 1; } if ch == ']' { depth -= 1; if depth == 0 { e = b + k; break; } } }
        let nums: Vec<u32> = s[b + 1..e].split(|ch: char| !ch.is_ascii_digit()).filter_map(|x| x.parse().ok()).collect();
        nums.chunks(2).map(|p| [p[0], p[1]]).collect()
    }
    let r = morphism_toposort(&t2(&list2(&j, "dom_new")), &t2(&list2(&j, "dom_old")), &t2(&list2(&j, "cod_new")), &t2(&list2(&j, "cod_old")),
                              &t1(&list1(&j, "obj_old")), &t1(&list1(&j, "obj_new")));
    match r { Ok(v) => { println!("ok"); for m in v { println!("{} {} {}", m.morph, m.dom, m.cod); } } Err(_) => println!("err") }
}
'''


def native_build(scratch):
    d = os.path.join(scratch, "c18_native")
    os.makedirs(os.path.join(d, "src"), exist_ok=True)
    open(os.path.join(d, "Cargo.toml"), "w").write('[package]\nname = "c18-native"\nversion = "0.0.0"\nedition = "2021"\n\n[workspace]\n\n[dependencies]\neqlog-runtime = { path = "%s/eqlog-runtime" }\n' % P.REPO)
    open(os.path.join(d, "src", "main.rs"), "w").write(NATIVE_MAIN)
    env = dict(os.environ, CARGO_NET_OFFLINE="true", CARGO_TARGET_DIR=os.path.join(d, "target"))
    p = subprocess.run(["cargo", "build", "--offline", "-q"], cwd=d, env=env, capture_output=True, text=True)
    if p.returncode != 0:
        raise P.Inconclusive("native toposort driver does not build: " + p.stderr[-1500:])
    return os.path.join(d, "target", "debug", "c18-native")


def native_run(exe, scratch, split):
    path = os.path.join(scratch, "c18_input.%d.json" % os.getpid())
    json.dump(split, open(path, "w"))
    p = subprocess.run([exe, path], capture_output=True, text=True, timeout=60)
    os.unlink(path)
    if p.returncode != 0:
        return ("panic", p.stderr.strip().split("\n")[0][:200])
    lines = p.stdout.strip().split("\n")
    if lines[0] == "err":
        return ("err", [])
    return ("ok", [tuple(int(x) for x in l.split()) for l in lines[1:]])


def reference(split):
    """reference reading of the property on a concrete input: (cyclic?, expected multiset of (f, a, b))"""
    dom = split["dom_new"] + split["dom_old"]
    cod = split["cod_new"] + split["cod_old"]
    cods = {}
    for f, b in cod:
        cods.setdefault(f, []).append(b)
    edges = [(f, a, b) for a, f in dom for b in cods.get(f, [])]
    objs = set(split["obj_new"] + split["obj_old"])
    adj = {}
    for f, a, b in edges:
        adj.setdefault(a, set()).add(b)
    def reach_from(a):
        seen, todo = set(), list(adj.get(a, ()))
        while todo:
            x = todo.pop()
            if x not in seen:
                seen.add(x)
                todo += list(adj.get(x, ()))
        return seen
    cyclic = any(a in reach_from(a) for a in objs)
    return cyclic, sorted(edges)


def confirm(exe, scratch, inp):
    """natively evaluates the property on the decoded counterexample; returns list of problems"""
    problems = []
    outs = []
    for key in ("ages1", "ages2"):
        if key not in inp:
            continue
        sp = inp[key]
        kind, out = native_run(exe, scratch, sp)
        outs.append((kind, out))
        functional = all(len([1 for f2, _ in sp["cod_new"] + sp["cod_old"] if f2 == f]) <= 1 for f, _ in sp["cod_new"] + sp["cod_old"])
        cyclic, edges = reference(sp)
        if kind == "panic":
            problems.append("morphism_toposort panics: %s" % out)
            continue
        if functional and (kind == "err") != cyclic:
            problems.append("returns %s but the graph is %s" % (kind, "cyclic" if cyclic else "acyclic"))
        if kind == "ok":
            if functional and sorted(out) != edges:
                problems.append("output %s is not exactly the morphisms with dom and cod %s" % (sorted(out), edges))
            for i, (f, a, b) in enumerate(out):
                for (f2, a2, b2) in out[i + 1:]:
                    if b2 == a:
                        problems.append("morphism %d into %d appears after morphism %d out of it" % (f2, a, f))
    if len(outs) == 2 and outs[0][0] != "panic" and outs[1][0] != "panic":
        if outs[0][0] != outs[1][0] or sorted(outs[0][1]) != sorted(outs[1][1]):
            problems.append("two new/old splits of the same tables give different results: %s / %s" % (outs[0], outs[1]))
    return problems


def validate(exe, scratch, seed, n):
    """tool validation: the interpreter in concrete mode against the natively compiled function on random inputs
    (verdict and exact output sequence must agree)"""
    import random
    rng = random.Random(seed)
    prog = load_program([os.path.join(P.REPO, SRC)])
    bad = []
    for _ in range(n):
        NO, NM = rng.randint(1, 4), rng.randint(1, 4)
        U = max(NO, NM)
        objs = [a for a in range(NO) if rng.random() < 0.8]
        if not objs:
            continue
        sp = {k: [] for k in ("obj_new", "obj_old", "dom_new", "dom_old", "cod_new", "cod_old")}
        for a in objs:
            sp[rng.choice(["obj_new", "obj_old"])].append(a)
        for f in range(NM):
            for _k in range(rng.choice([0, 1, 1, 1, 2])):
                row = [rng.choice(objs), f]
                if row not in sp["dom_new"] + sp["dom_old"]:
                    sp[rng.choice(["dom_new", "dom_old"])].append(row)
            for _k in range(rng.choice([0, 1, 1, 1, 2])):
                row = [f, rng.choice(objs)]
                if row not in sp["cod_new"] + sp["cod_old"]:
                    sp[rng.choice(["cod_new", "cod_old"])].append(row)
        ctx = V.set_ctx(V.Ctx(Circuit(), U=U))

        def mk(rows, ar):
            return SetV(ar, {tuple(r) if ar == 2 else (r,): T for r in rows}, U, frozen=True)
        args = [mk(sp["dom_new"], 2), mk(sp["dom_old"], 2), mk(sp["cod_new"], 2), mk(sp["cod_old"], 2), mk(sp["obj_old"], 1), mk(sp["obj_new"], 1)]
        I, r, ev = run(prog, ctx, args, NO + 1)
        panics = [m for g, k, m in ev if g == T and k == "panic"]
        ok, items = decode_result(I, r)
        mine = ("panic", None) if panics else (("ok", [(m, d, cd) for g, m, d, cd in items if g == T]) if ok == T else ("err", []))
        nat = native_run(exe, scratch, sp)
        if nat[0] != mine[0] or (nat[0] == "ok" and list(nat[1]) != list(mine[1])):
            bad.append({"input": sp, "native": nat, "interpreter": mine})
    return bad


def run_case(task):
    P.limit_memory(24)
    t0 = time.time()
    res = dict(task)
    try:
        ctx, pre, goals, cover, info = build(task["NO"], task["NM"], task["functional"], task["two_splits"], os.path.join(P.REPO, SRC))
        c = ctx.c
        res["goals"] = len(goals)
        res["nodes"] = c.n
        res["encode_s"] = round(time.time() - t0, 1)
        t1 = time.time()
        bad = c.orl([-l for _, l in goals])
        r, mdl = terms.solve(c, ctx.assumes + pre + [bad], solver=task["solver"], timeout_s=task["timeout"])
        res["queries"] = 1
        if r == "sat":
            vals = c.evaluate([l for _, l in goals], mdl)
            res["failing"] = [lab for (lab, _), v in zip(goals, vals) if not v][:6]
            res["input"] = decode_input(c, mdl, info, task["NO"], task["NM"])
            res["status"] = "failed"
        else:
            res["status"] = "proved"
        res["cover"] = {}
        for lab, l in cover:
            rc, _ = terms.solve(c, ctx.assumes + pre + [l], solver=task["solver"], timeout_s=task["timeout"])
            res["queries"] += 1
            res["cover"][lab] = (rc == "sat")
        res["solve_s"] = round(time.time() - t1, 1)
    except (Unsupported, terms.SolverError, P.Inconclusive, MemoryError) as ex:
        res["status"] = "inconclusive"
        res["reason"] = "%s: %s" % (type(ex).__name__, ex)
    except Exception:
        import traceback
        res["status"] = "inconclusive"
        res["reason"] = traceback.format_exc()[-1500:]
    res["wall_s"] = round(time.time() - t0, 1)
    return res


def main():
    tier = sys.argv[1]
    seed = int(os.environ.get("VERIF_SEED", "1"))
    t0 = time.time()
    scratch = P.scratch_dir()
    P.ensure_rsdump()
    solver = os.environ.get("VERIF_SOLVER", "kissat")
    timeout = 300 if tier == "quick" else 3000
    cases = [(2, 2), (3, 2), (2, 3), (3, 3)] if tier == "quick" else [(2, 2), (3, 2), (2, 3), (3, 3), (4, 3), (3, 4), (4, 4)]
    tasks = []
    for NO, NM in cases:
        tasks.append({"NO": NO, "NM": NM, "functional": False, "two_splits": False, "solver": solver, "timeout": timeout})
        tasks.append({"NO": NO, "NM": NM, "functional": True, "two_splits": True, "solver": solver, "timeout": timeout})
    import multiprocessing as mp
    with mp.get_context("fork").Pool(min(16, len(tasks)), maxtasksperchild=1) as pool:
        results = pool.map(run_case, tasks, chunksize=1)
    failed = [r for r in results if r["status"] == "failed"]
    inconc = [r for r in results if r["status"] == "inconclusive"]
    violations, unconfirmed = [], []
    nval = 40 if tier == "quick" else 400
    val_bad = []
    try:
        exe = native_build(scratch)
        val_bad = validate(exe, scratch, seed, nval)
    except (P.Inconclusive, Unsupported) as ex:
        val_bad = [{"error": "%s: %s" % (type(ex).__name__, ex)}]
    if failed:
        try:
            for r in failed:
                probs = confirm(exe, scratch, r["input"])
                (violations if probs else unconfirmed).append((r, probs))
        except P.Inconclusive as ex:
            unconfirmed = [(r, [str(ex)]) for r in failed]
    vac = sorted(set(lab for r in results for lab, ok in r.get("cover", {}).items() if not ok) - set(lab for r in results for lab, ok in r.get("cover", {}).items() if ok))
    wall = time.time() - t0
    replay = None
    if violations:
        os.makedirs(os.path.join(P.VERIF, "evidence", "replays"), exist_ok=True)
        replay = os.path.join(P.VERIF, "evidence", "replays", "C18.json")
        json.dump([{"case": {k: r[k] for k in ("NO", "NM", "functional", "two_splits")}, "failing_goals": r["failing"], "input": r["input"], "observed_natively": probs,
                    "how": "call eqlog_runtime::morphism_toposort(dom_new, dom_old, cod_new, cod_old, obj_old, obj_new) with PrefixTrees holding the listed tuples (dom rows are [dom(f), f], cod rows [f, cod(f)])"}
                   for r, probs in violations], open(replay, "w"), indent=1)
    cov = {
        "explanation": __doc__,
        "functions_encoded": [SRC + "::morphism_toposort (with its closure get_cod), parsed with syn on this run"],
        "bounds": {"objects x morphism ids": ["%dx%d" % c_ for c_ in cases], "queue loop unrolling": "#objects + 1 with bound assertion",
                   "inputs": "every subset of objects, every dom / cod relation over them (functional where stated), every new/old split"},
        "cases": len(results), "cases_proved": sum(1 for r in results if r["status"] == "proved"),
        "obligations": sum(r.get("goals", 0) for r in results),
        "solver_queries": sum(r.get("queries", 0) for r in results),
        "solver_time_s": round(sum(r.get("solve_s", 0) for r in results), 1),
        "encode_time_s": round(sum(r.get("encode_s", 0) for r in results), 1),
        "max_circuit_nodes": max([r.get("nodes", 0) for r in results] + [0]),
        "vacuity_witnesses": {lab: any(r.get("cover", {}).get(lab) for r in results) for r0 in results for lab in r0.get("cover", {})},
        "samples": [{k: r.get(k) for k in ("NO", "NM", "functional", "two_splits", "goals", "nodes", "status", "wall_s")} for r in results[:3]],
        "inconclusive": [{k: r.get(k) for k in ("NO", "NM", "functional", "reason")} for r in inconc][:6],
        "translator_validation": {"random_inputs": nval, "mismatches": len(val_bad)},
        "unconfirmed": [str((r.get("failing"), r.get("input")))[:600] for r, _ in unconfirmed][:6],
    }
    P.write_evidence("C18", tier, seed, "other", cov,
                     ["PrefixTree1/2 are ordered tuple sets (get / iter / iter().next() by contract; decided by the C08 check)",
                      "precondition from the generated caller: every dom / cod value is an object; new and old parts of a table are disjoint",
                      "BTreeMap<u32,u32> and VecDeque<u32> are modelled as a universe-indexed slot array and a guarded list with FIFO removal"],
                     wall, len(violations))
    if violations:
        print("VIOLATION property=C18 replay=%s" % replay)
        for r, probs in violations[:5]:
            print("  objects=%d morphisms=%d: %s; natively: %s" % (r["NO"], r["NM"], r["failing"][:2], probs[:2]))
        sys.exit(1)
    for b in val_bad[:3]:
        print("INCONCLUSIVE: interpreter and native function disagree on a concrete input: %s" % json.dumps(b)[:600])
    if inconc or unconfirmed or vac or val_bad:
        for r in inconc[:6]:
            print("INCONCLUSIVE: %dx%d: %s" % (r["NO"], r["NM"], r.get("reason", "")[:800]))
        for r, probs in unconfirmed[:6]:
            print("INCONCLUSIVE: goal failed in the encoding but the real function satisfies the property on the decoded input: %s %s" % (r["failing"][:3], json.dumps(r["input"])[:400]))
        for lab in vac:
            print("INCONCLUSIVE: vacuity witness unreachable: " + lab)
        sys.exit(2)
    print("OK property=C18 tier=%s cases=%d obligations=%d wall=%.0fs" % (tier, len(results), cov["obligations"], wall))


def _guarded_main():
    """an internal error of the machinery is never a verdict: exit 2 (inconclusive), not a traceback with exit 1"""
    try:
        main()
    except SystemExit:
        raise
    except BaseException:
        import traceback
        print("INCONCLUSIVE: internal error of the check: " + traceback.format_exc()[-1500:])
        sys.exit(2)


if __name__ == "__main__":
    _guarded_main()
