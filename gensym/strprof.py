"""String profile of the symbolic executor (used by the C11 check only).

Strings are byte arrays of a fixed small capacity with a symbolic length; slices are views (base, start, end) with
symbolic bounds.  The std functions the diagnostic code of eqlog uses -- str::{lines, len, find, to_string}, slicing,
String::push, [String]::join -- are built-ins whose contract is validated on every run against the real std on all
strings of the bound (check_c11.validate_builtins).  Iterator adaptors with state (scan, enumerate over guarded items,
skip_while, take_while, last) are evaluated sequentially over the guarded item list.
"""
from terms import T, F
import values as V
from values import (SInt, UNDEF, UNIT, OptV, IterV, VecL, StructV, Unsupported, mkbool, lit, merge, is_int, int_eq, int_lt,
                    int_bin, int_ite, cases_of, NONE)

NL, CR, SP, SL = 10, 13, 32, 47


def add(a, b):
    return int_bin(lambda x, y: x + y, a, b)


def sub(a, b):
    return int_bin(lambda x, y: x - y, a, b)


def le(a, b):
    return -int_lt(b, a)


class StrA:
    """owned string / base text: `bytes` = list (capacity) of ints or SInt, `n` = length"""

    def __init__(self, bytes_, n):
        self.bytes = list(bytes_)
        self.n = n
        self.cap = len(self.bytes)

    def base(self):
        return self, 0, self.n

    def clone(self):
        return StrA(self.bytes, self.n)


class StrS:
    """view into a StrA: bytes [start, end)"""

    def __init__(self, arr, start, end):
        self.arr, self.start, self.end = arr, start, end

    def base(self):
        return self.arr, self.start, self.end


def is_str(v):
    return isinstance(v, (StrA, StrS)) or (isinstance(v, tuple) and len(v) == 2 and v[0] == "str")


def from_literal(s):
    b = list(s.encode("utf-8"))
    return StrA(b, len(b))


def as_str(v):
    if isinstance(v, tuple) and v[0] == "str":
        return from_literal(v[1])
    return v


def byte_abs(arr, p):
    """byte of the base array at (symbolic) absolute position p"""
    if isinstance(p, int):
        return arr.bytes[p] if 0 <= p < arr.cap else UNDEF
    r = UNDEF
    for k, gk in cases_of(p).items():
        if 0 <= k < arr.cap:
            r = merge(gk, arr.bytes[k], r)
    return r


def slen(s):
    arr, lo, hi = as_str(s).base()
    return sub(hi, lo)


def is_cont(b):
    """literal: b is a UTF-8 continuation byte (10xxxxxx)"""
    c = V.CTX.c
    if isinstance(b, int):
        return T if (b & 0xC0) == 0x80 else F
    return c.orl([g for k, g in cases_of(b).items() if (k & 0xC0) == 0x80])


def beq(b, k):
    if b is UNDEF:
        return F
    return int_eq(b, k)


def lines(s):
    """str::lines(): split at \\n; a \\r directly before the \\n is stripped; no empty last line"""
    c = V.CTX.c
    arr, lo, hi = as_str(s).base()
    cap = arr.cap
    inr = [c.and2(le(lo, p), int_lt(p, hi)) for p in range(cap)]
    isnl = [c.and2(inr[p], beq(arr.bytes[p], NL)) for p in range(cap)]
    items = []
    for p in range(cap):
        start = c.and2(inr[p], c.or2(int_eq(lo, p), isnl[p - 1] if p > 0 else F))
        if start == F:
            continue
        none_before = T          # no newline in [p, q)
        for q in range(p, cap + 1):
            if q < cap:
                here = c.and2(none_before, isnl[q])
                # terminated by the newline at q; strip a \r at q-1
                cr = c.and2(T if q - 1 >= p else F, beq(arr.bytes[q - 1], CR)) if q - 1 >= p else F
                g = c.and2(start, here)
                if g != F:
                    items.append((g, StrS(arr, p, int_ite(cr, q - 1, q))))
                # the text ends at q without a newline
                endhere = c.and_(start, none_before, int_eq(hi, q))
                if endhere != F and q > p:
                    items.append((endhere, StrS(arr, p, q)))
                none_before = c.and2(none_before, -isnl[q])
            else:
                endhere = c.and_(start, none_before, int_eq(hi, q))
                if endhere != F and q > p:
                    items.append((endhere, StrS(arr, p, q)))
    return IterV(items)


def split_char(s, ch):
    """str::split(char): pieces between occurrences of ch; n occurrences give n + 1 pieces (possibly empty)"""
    c = V.CTX.c
    arr, lo, hi = as_str(s).base()
    cap = arr.cap
    inr = [c.and2(le(lo, p), int_lt(p, hi)) for p in range(cap)]
    isch = [c.and2(inr[p], beq(arr.bytes[p], ch)) for p in range(cap)]
    items = []
    for p in range(cap + 1):
        within = c.and2(le(lo, p), le(p, hi))
        start = c.and2(within, c.or2(int_eq(lo, p), isch[p - 1] if p > 0 else F))
        if start == F:
            continue
        none_before = T
        for q in range(p, cap + 1):
            if q < cap:
                g = c.and_(start, none_before, isch[q])
                if g != F:
                    items.append((g, StrS(arr, p, q)))
            endhere = c.and_(start, none_before, int_eq(hi, q))
            if endhere != F:
                items.append((endhere, StrS(arr, p, q)))
            if q < cap:
                none_before = c.and2(none_before, -isch[q])
    return IterV(items)


def strip_suffix_char(s, ch):
    c = V.CTX.c
    s = as_str(s)
    arr, lo, hi = s.base()
    n = sub(hi, lo)
    last = byte_abs(arr, sub(hi, 1))
    has = c.and2(int_lt(0, n), beq(last, ch))
    return OptV(has, StrS(arr, lo, sub(hi, 1)))


def find(s, pat):
    """str::find(&str) for a literal pattern: byte index of the first match"""
    c = V.CTX.c
    arr, lo, hi = as_str(s).base()
    pb = list(pat.encode("utf-8"))
    n = sub(hi, lo)
    seen = F
    val = UNDEF
    maxlen = max(cases_of(n)) if not isinstance(n, int) else n
    for k in range(0, maxlen - len(pb) + 1):
        m = le(add(k, len(pb)), n)
        for j, b in enumerate(pb):
            m = c.and2(m, beq(byte_abs(arr, add(lo, k + j)), b))
        take = c.and2(m, -seen)
        val = merge(take, k, val)
        seen = c.or2(seen, m)
    return OptV(seen, val)


def boundary(s, k):
    """literal: k is a char boundary of s (0, len, or not a continuation byte)"""
    c = V.CTX.c
    arr, lo, hi = as_str(s).base()
    n = sub(hi, lo)
    b = byte_abs(arr, add(lo, k))
    return c.or_(int_eq(k, 0), int_eq(k, n), c.and2(int_lt(k, n), -is_cont(b) if b is not UNDEF else F))


def slice_(I, g, s, a, b, e):
    """&s[a..b] with the panics of str slicing as events"""
    c = V.CTX.c
    s = as_str(s)
    arr, lo, hi = s.base()
    n = sub(hi, lo)
    a = 0 if a is None else a
    b = n if b is None else b
    I.event(c.and2(g, int_lt(b, a)), "panic", "slice index starts at a larger position than it ends (line %s)" % e.get("line"))
    I.event(c.and2(g, int_lt(n, b)), "panic", "slice end index out of range (line %s)" % e.get("line"))
    I.event(c.and_(g, le(a, b), le(b, n), -c.and2(boundary(s, a), boundary(s, b))), "panic", "slice index is not a char boundary (line %s)" % e.get("line"))
    r = StrS(arr, add(lo, a), add(lo, b))
    if getattr(I, "on_slice", None) is not None:
        I.on_slice(g, s, a, b, e)
    return r


def to_owned(s, cap=None):
    s = as_str(s)
    arr, lo, hi = s.base()
    cap = cap or arr.cap
    n = sub(hi, lo)
    bs = []
    for k in range(cap):
        bs.append(byte_abs(arr, add(lo, k)))
    bs = [b if b is not UNDEF else 0 for b in bs]
    return StrA(bs, n)


def push(I, g, s, ch):
    """String::push(char) for an ASCII char"""
    c = V.CTX.c
    if not isinstance(s, StrA):
        raise Unsupported("push on a borrowed string")
    I.event(c.and2(g, -int_lt(s.n, s.cap)), "bound", "string capacity exceeded (push)")
    for k in range(s.cap):
        s.bytes[k] = merge(c.and2(g, int_eq(s.n, k)), ch, s.bytes[k])
    s.n = merge(g, add(s.n, 1), s.n)
    # keep lengths inside the capacity (the bound event above covers the excess)
    if not isinstance(s.n, int):
        s.n = V.mkint({k: gk for k, gk in cases_of(s.n).items() if k <= s.cap}) if any(k > s.cap for k in cases_of(s.n)) else s.n


def join(I, g, items, sep, cap):
    """[String]::join(&str) over a guarded list"""
    c = V.CTX.c
    out = StrA([0] * cap, 0)
    sepb = list(sep.encode("utf-8"))
    first = T
    for gi, x in items:
        gg = c.and2(g, gi)
        if gg == F:
            continue
        for b in sepb:
            push(I, c.and2(gg, -first), out, b)
        arr, lo, hi = as_str(x).base()
        n = sub(hi, lo)
        mx = max(cases_of(n)) if not isinstance(n, int) else n
        for k in range(mx):
            push(I, c.and2(gg, int_lt(k, n)), out, byte_abs(arr, add(lo, k)))
        first = c.and2(first, -gi)
    return out


def digits(n):
    if isinstance(n, int):
        return len(str(n))
    return _digits_sym(n)


def _digits_sym(n):
    c = V.CTX.c
    by = {}
    for k, g in cases_of(n).items():
        d = len(str(k))
        by[d] = c.or2(by.get(d, F), g)
    return V.mkint(by)


class CellPlace:
    def __init__(self, v):
        self.v = v

    def get(self):
        return self.v

    def set(self, g, v):
        self.v = merge(g, v, self.v)


def str_method(I, recv, name, argexprs, scope, frame, g, hint, e):
    c = I.c

    def arg(i=0):
        return I.deref(I.eval(argexprs[i], scope, frame, g))
    if name == "len":
        return slen(recv)
    if name == "lines":
        return lines(recv)
    if name in ("chars", "char_indices"):
        # one item per character = per byte that is not a UTF-8 continuation byte (the value is the lead byte: only counting and
        # positions are meaningful in this profile)
        arr, lo, hi = as_str(recv).base()
        n = sub(hi, lo)
        mx = max(cases_of(n)) if not isinstance(n, int) else n
        items = []
        for k in range(mx):
            b = byte_abs(arr, add(lo, k))
            g_ = c.and2(int_lt(k, n), -is_cont(b) if b is not UNDEF else F)
            items.append((g_, (k, b) if name == "char_indices" else b))
        return IterV(items)
    if name == "split":
        p = arg()
        if not isinstance(p, int):
            raise Unsupported("split with a non-char pattern")
        return split_char(recv, p)
    if name == "strip_suffix":
        p = arg()
        if not isinstance(p, int):
            raise Unsupported("strip_suffix with a non-char pattern")
        return strip_suffix_char(recv, p)
    if name == "find":
        p = arg()
        if not (isinstance(p, tuple) and p[0] == "str"):
            raise Unsupported("find with a non-literal pattern")
        return find(recv, p[1])
    if name in ("to_string", "to_owned", "clone"):
        return to_owned(recv, getattr(I, "str_cap", None))
    if name in ("as_str", "as_ref", "deref", "borrow"):
        return recv
    if name in ("as_bytes", "bytes", "into_bytes"):
        o = to_owned(recv, getattr(I, "str_cap", None))
        v = V.VecA(list(o.bytes), o.n, o.cap)
        if name == "bytes":
            return IterV(v.items())
        return v
    if name == "push":
        ch = arg()
        push(I, g, recv, ch)
        return UNIT
    if name == "is_empty":
        return mkbool(int_eq(slen(recv), 0))
    raise Unsupported("str method " + name)


def iter_extra(I, recv, name, argexprs, scope, frame, g, hint, e):
    """stateful iterator adaptors; returns NotImplemented if `name` is not handled here"""
    c = I.c

    def arg(i=0):
        return I.deref(I.eval(argexprs[i], scope, frame, g))
    if name == "scan":
        init = arg(0)
        f = arg(1)
        cell = CellPlace(init)
        out = []
        stopped = F
        for gi, x in recv.items:
            gg = c.and_(g, gi, -stopped)
            if gg == F:
                continue
            r = I.deref(I.call_closure(f, gg, [V.RefV(cell), x]))
            if not isinstance(r, OptV):
                raise Unsupported("scan closure does not return an Option")
            out.append((c.and_(gi, -stopped, r.some), r.val))
            stopped = c.or2(stopped, c.and2(gi, -r.some))
        return IterV(out)
    if name == "map_while":
        f = arg()
        out = []
        stopped = F
        for gi, x in recv.items:
            gg = c.and_(g, gi, -stopped)
            if gg == F:
                continue
            r = I.deref(I.call_closure(f, gg, [x]))
            if not isinstance(r, OptV):
                raise Unsupported("map_while closure does not return an Option")
            out.append((c.and_(gi, -stopped, r.some), r.val))
            stopped = c.or2(stopped, c.and2(gi, -r.some))
        return IterV(out)
    if name == "enumerate":
        out = []
        prev = []
        for gi, x in recv.items:
            idx = V.count_lits(prev) if prev else 0
            out.append((gi, (idx, x)))
            prev.append(gi)
        return IterV(out)
    if name in ("skip_while", "take_while"):
        f = arg()
        out = []
        state = T          # still skipping / still taking
        for gi, x in recv.items:
            gg = c.and2(g, gi)
            if gg == F:
                continue
            p = lit(I.deref(I.call_closure(f, gg, [x])))
            if name == "skip_while":
                out.append((c.and2(gi, -c.and2(state, p)), x))
                state = c.and2(state, c.or2(-gi, p))
            else:
                out.append((c.and_(gi, state, p), x))
                state = c.and2(state, c.or2(-gi, p))
        return IterV(out)
    if name == "last":
        some = F
        val = UNDEF
        for gi, x in recv.items:
            val = merge(gi, x, val)
            some = c.or2(some, gi)
        return OptV(some, val)
    if name == "max":
        return iter_max(I, recv)
    return NotImplemented


def iter_max(I, it):
    c = I.c
    some = c.orl([gi for gi, _ in it.items])
    cands = set()
    for gi, x in it.items:
        x = I.deref(x)
        if not is_int(x):
            raise Unsupported("max over non-integers")
        cands |= set(cases_of(x))
    by = {}
    for v in sorted(cands):
        has = c.orl([c.and2(gi, int_eq(I.deref(x), v)) for gi, x in it.items])
        bigger = c.orl([c.and2(gi, int_lt(v, I.deref(x))) for gi, x in it.items])
        by[v] = c.and2(has, -bigger)
    if not by:
        return NONE
    return OptV(some, V.mkint(by))


def merge_str(cnd, a, b):
    """ite(cnd, a, b) for strings"""
    if b is UNDEF or b is None:
        return a
    if a is UNDEF or a is None:
        return b
    a, b = as_str(a), as_str(b)
    if isinstance(a, StrS) and isinstance(b, StrS) and a.arr is b.arr:
        return StrS(a.arr, int_ite(cnd, a.start, b.start), int_ite(cnd, a.end, b.end))
    cap = max(a.base()[0].cap, b.base()[0].cap)
    x, y = to_owned(a, cap), to_owned(b, cap)
    return StrA([merge(cnd, p, q) for p, q in zip(x.bytes, y.bytes)], int_ite(cnd, x.n, y.n))


def utf8_valid(vec):
    """literal: the byte vector (over the profile's alphabet) is well-formed UTF-8"""
    c = V.CTX.c
    ok = T
    for k in range(vec.cap):
        inr = int_lt(k, vec.n)
        b = vec.s[k]
        if b is UNDEF:
            continue
        lead = c.orl([g for v, g in cases_of(b).items() if (v & 0xE0) == 0xC0])
        cont = is_cont(b)
        other_bad = c.orl([g for v, g in cases_of(b).items() if v >= 0x80 and (v & 0xE0) != 0xC0 and (v & 0xC0) != 0x80])
        nxt = vec.s[k + 1] if k + 1 < vec.cap else UNDEF
        nxt_cont = c.and2(int_lt(k + 1, vec.n), is_cont(nxt)) if nxt is not UNDEF else F
        prv = vec.s[k - 1] if k > 0 else UNDEF
        prv_lead = c.orl([g for v, g in cases_of(prv).items() if (v & 0xE0) == 0xC0]) if prv is not UNDEF else F
        ok = c.and_(ok, c.implies(c.and2(inr, lead), nxt_cont), c.implies(c.and2(inr, cont), prv_lead), c.implies(inr, -other_bad))
    return ok


def from_utf8(vec):
    from values import EnumV, OPQ
    vec = vec if isinstance(vec, V.VecA) else None
    if vec is None:
        raise Unsupported("String::from_utf8 of a non-vector")
    valid = utf8_valid(vec)
    s = StrA([b if b is not UNDEF else 0 for b in vec.s], vec.n)
    return EnumV("Result", {"Ok": (valid, (s,)), "Err": (-valid, (OPQ,))})
