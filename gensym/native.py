"""Native side: builds a scratch crate that `include!`s the generated modules next to a generated
script driver and links the real eqlog-runtime from /repo; runs API scripts and parses state dumps.

Used for (1) replaying solver counterexamples against the real build before a VIOLATION is
reported, and (2) validating the symbolic executor itself (concrete interpretation vs native).
"""
import json, os, re, subprocess, itertools
from terms import T, F
import values as V
from values import StructV, VecL, VecA, MapV, SetV, mkbool, UNDEF
from interp import ty_name, ty_args
import model as M


def rs_ident(s):
    return re.sub(r"[^A-Za-z0-9_]", "_", s)


def gen_driver(prog, sch):
    """Rust source of `pub fn run(script: &str) -> String` and `fn dump(..)` for one generated module"""
    model = sch.model
    L = []
    L.append("#[allow(unused)] pub fn verif_dump(m: &%s) -> String {" % model)
    L.append("let mut o = String::new();")
    for rel in sch.rels.values():
        for ix in rel.indices:
            L.append('o += &format!("field %s {:?}\\n", m.%s.iter().collect::<Vec<_>>());' % (ix.field, ix.field))
    for name in sch.elem_index:
        L.append('o += &format!("eidx %s {:?}\\n", m.%s);' % (name, name))
    for t in sch.types:
        L.append('o += &format!("uf %s {} {:?}\\n", m.%s_equalities.len(), (0..m.%s_equalities.len()).map(|i| { let r: u32 = m.%s_equalities.root_const((i as u32).into()).into(); r }).collect::<Vec<u32>>());' % (t, t, t, t))
        L.append('o += &format!("weights %s {:?}\\n", m.%s_weights);' % (t, t))
        L.append('o += &format!("uprooted %s {:?}\\n", m.%s_uprooted.iter().map(|x| x.0).collect::<Vec<u32>>());' % (t, t))
    L.append('o += &format!("flag empty_join_is_dirty {}\\n", m.empty_join_is_dirty);')
    L.append("o }")
    L.append("#[allow(unused)] pub fn verif_run(script: &str) -> String {")
    L.append("let mut m = %s::new(); let mut o = String::new();" % model)
    L.append("for line in script.lines() { let w: Vec<&str> = line.split_whitespace().collect(); if w.is_empty() { continue; }")
    L.append("match w[0] {")
    L.append('"dump" => { o += "BEGIN dump\\n"; o += &verif_dump(&m); o += "END\\n"; }')
    L.append('"close" => { m.close(); o += "ret unit\\n"; }')
    L.append('"close_until" => { let n: usize = w[1].parse().unwrap(); let cnt = std::cell::Cell::new(0usize); let buf = std::cell::RefCell::new(String::new());'
             ' let r = m.close_until(|mm| { let c = cnt.get(); cnt.set(c + 1); { let mut b = buf.borrow_mut(); *b += &format!("BEGIN cond {}\\n", c); *b += &verif_dump(mm); *b += "END\\n"; } c == n });'
             ' o += &buf.borrow(); o += &format!("ret {}\\n", r); }')
    for (ty, name), item in sorted(prog.methods.items()):
        if ty != model or item["vis"] != "pub" or name in ("new", "close", "close_until"):
            continue
        inputs = item["sig"]["inputs"]
        if not inputs or inputs[0]["k"] != "SelfArg":
            continue
        pre = []
        args = []
        pos = 1
        ok = True
        for inp in inputs[1:]:
            tn = ty_name(inp["ty"])
            if M.snake(tn or "") in sch.types:
                args.append("%s(w[%d].parse().unwrap())" % (tn, pos))
                pos += 1
            elif tn in prog.enums:
                # variant name followed by its arguments
                arms = []
                for v in prog.enums[tn]:
                    n = len(v["fields"]["fields"]) if v["fields"]["k"] == "Unnamed" else 0
                    ftys = [ty_name(fd["ty"]) for fd in v["fields"]["fields"]] if n else []
                    arms.append('"%s" => %s::%s(%s)' % (v["name"], tn, v["name"], ", ".join("%s(w[%d].parse().unwrap())" % (ft, pos + 1 + j) for j, ft in enumerate(ftys))))
                pre.append("let case = match w[%d] { %s, _ => panic!(\"variant\") };" % (pos, ", ".join(arms)))
                args.append("case")
                pos += 99
            else:
                ok = False
        if not ok:
            continue
        out = item["sig"]["output"]
        call = "m.%s(%s)" % (name, ", ".join(args))
        on = ty_name(out) if out is not None else None
        if out is None:
            body = '%s; o += "ret unit\\n";' % call
        elif out["k"] == "ImplTrait":
            body = 'o += &format!("ret {:?}\\n", %s.collect::<Vec<_>>());' % call
        else:
            body = 'o += &format!("ret {:?}\\n", %s);' % call
        L.append('"%s" => { %s %s }' % (name, " ".join(pre), body))
    L.append('other => panic!("unknown script command {}", other),')
    L.append("} } o }")
    return "\n".join(L)


class NativeHarness:
    """one scratch crate for a set of generated modules"""

    def __init__(self, scratch, repo="/repo"):
        self.dir = os.path.join(scratch, "native")
        self.repo = repo
        self.mods = {}
        self.built = False

    def add(self, name, rs_path, prog, sch):
        self.mods[name] = (rs_path, gen_driver(prog, sch))
        self.built = False

    def build(self):
        os.makedirs(os.path.join(self.dir, "src"), exist_ok=True)
        with open(os.path.join(self.dir, "Cargo.toml"), "w") as f:
            f.write('[package]\nname = "verif-native"\nversion = "0.0.0"\nedition = "2021"\n\n[workspace]\n\n'
                    '[dependencies]\neqlog-runtime = { path = "%s/eqlog-runtime" }\n\n[profile.dev]\nopt-level = 1\ndebug = false\n' % self.repo)
        lock = os.path.join(self.repo, "Cargo.lock")
        main = ["#![allow(warnings)]"]
        for name, (rs, drv) in sorted(self.mods.items()):
            main.append("mod %s { include!(%s);\n%s\n}" % (rs_ident(name), json.dumps(os.path.abspath(rs)), drv))
        main.append("fn main() { let a: Vec<String> = std::env::args().collect(); let script = std::fs::read_to_string(&a[2]).unwrap();")
        main.append("let out = match a[1].as_str() {")
        for name in sorted(self.mods):
            main.append('"%s" => %s::verif_run(&script),' % (name, rs_ident(name)))
        main.append('_ => panic!("unknown module") }; print!("{}", out); }')
        with open(os.path.join(self.dir, "src", "main.rs"), "w") as f:
            f.write("\n".join(main))
        env = dict(os.environ, CARGO_NET_OFFLINE="true", CARGO_TARGET_DIR=os.path.join(self.dir, "target"))
        p = subprocess.run(["cargo", "build", "--offline", "-q"], cwd=self.dir, env=env, capture_output=True, text=True)
        if p.returncode != 0:
            raise RuntimeError("native harness does not build:\n" + p.stderr[-3000:])
        self.exe = os.path.join(self.dir, "target", "debug", "verif-native")
        self.built = True

    def run(self, name, script_lines, timeout=60):
        if not self.built:
            self.build()
        path = os.path.join(self.dir, "script.%d.txt" % os.getpid())
        with open(path, "w") as f:
            f.write("\n".join(script_lines) + "\n")
        p = subprocess.run([self.exe, name, path], capture_output=True, text=True, timeout=timeout)
        os.unlink(path)
        return p.returncode, p.stdout, p.stderr


# ---------------------------------------------------------------------------------------------
def parse_output(text):
    """list of events: ('ret', str) | ('dump', kind, {section -> data})"""
    ev = []
    cur = None
    for line in text.split("\n"):
        if line.startswith("BEGIN "):
            cur = (line[6:].strip(), {})
        elif line == "END":
            ev.append(("dump", cur[0], cur[1]))
            cur = None
        elif cur is not None:
            kind, name, rest = line.split(" ", 2)
            cur[1][(kind, name)] = rest
        elif line.startswith("ret "):
            ev.append(("ret", line[4:].strip()))
    return ev


def ints(s):
    return [int(x) for x in re.findall(r"\d+", s)]


def state_from_dump(sch, d, U):
    """concrete model StructV from a native dump (requires V.CTX with universe >= ids used)"""
    f = {}
    for rel in sch.rels.values():
        for ix in rel.indices:
            rows = re.findall(r"\[([^\[\]]*)\]", d[("field", ix.field)][1:-1]) if len(ix.order) > 0 else None
            s = SetV(len(ix.order), {}, U)
            if len(ix.order) == 0:
                if d[("field", ix.field)].strip() != "[]":
                    s.cells[()] = T
            else:
                for r in rows:
                    s.cells[tuple(ints(r))] = T
            f[ix.field] = s
    for name, (reln, t) in sch.elem_index.items():
        m = MapV(mkdefault=lambda: VecL(), U=U)
        body = d[("eidx", name)].strip()
        for mm in re.finditer(r"(\d+): \[((?:\[[^\]]*\](?:, )?)*)\]", body):
            k = int(mm.group(1))
            rows = re.findall(r"\[([^\[\]]*)\]", mm.group(2))
            if k < U:
                m.p[k] = T
                m.v[k] = VecL([(T, tuple(ints(r))) for r in rows])
        f[name] = m
    for t in sch.types:
        n, roots = d[("uf", t)].split(" ", 1)
        n = int(n)
        roots = ints(roots)
        cap = V.CTX.cap
        # the native forest is observed through root_const only: a flat forest with the same roots
        f[t + "_equalities"] = StructV("Unification", {"parents": VecA(roots + [UNDEF] * (cap - n), n, cap), "sizes": VecA(None, 0, cap)})
        w = ints(d[("weights", t)])
        f[t + "_weights"] = VecA(w + [UNDEF] * (cap - len(w)), len(w), cap)
        f[t + "_uprooted"] = VecL([(T, x) for x in ints(d[("uprooted", t)])])
    f["empty_join_is_dirty"] = mkbool(T if d[("flag", "empty_join_is_dirty")].strip() == "true" else F)
    return StructV(sch.model, f)


def canonical_dump(sch, st_obj):
    """comparable summary of a (concrete) interpreter state, in the same shape as a parsed native dump"""
    out = {}
    for rel in sch.rels.values():
        for ix in rel.indices:
            s = st_obj.f[ix.field]
            out[("field", ix.field)] = sorted(t for t, g in s.cells.items() if g == T)
            if any(g not in (T, F) for g in s.cells.values()):
                raise ValueError("state is not concrete")
    for name in sch.elem_index:
        m = st_obj.f[name]
        out[("eidx", name)] = {k: [tuple(r) for g, r in m.v[k].items() if g == T] for k in range(m.U) if m.p[k] == T}
    for t in sch.types:
        out[("uprooted", t)] = [x for g, x in st_obj.f[t + "_uprooted"].items() if g == T]
        out[("weights", t)] = [st_obj.f[t + "_weights"].s[i] for i in range(st_obj.f[t + "_weights"].n)]
    out[("flag", "empty_join_is_dirty")] = st_obj.f["empty_join_is_dirty"].l == T
    return out


def canonical_native(sch, d):
    out = {}
    for rel in sch.rels.values():
        for ix in rel.indices:
            if len(ix.order) == 0:
                out[("field", ix.field)] = [()] if d[("field", ix.field)].strip() != "[]" else []
            else:
                out[("field", ix.field)] = sorted(tuple(ints(r)) for r in re.findall(r"\[([^\[\]]*)\]", d[("field", ix.field)][1:-1]))
    for name in sch.elem_index:
        e = {}
        for mm in re.finditer(r"(\d+): \[((?:\[[^\]]*\](?:, )?)*)\]", d[("eidx", name)]):
            e[int(mm.group(1))] = [tuple(ints(r)) for r in re.findall(r"\[([^\[\]]*)\]", mm.group(2))]
        out[("eidx", name)] = e
    for t in sch.types:
        out[("uprooted", t)] = ints(d[("uprooted", t)])
        out[("weights", t)] = ints(d[("weights", t)])
    out[("flag", "empty_join_is_dirty")] = d[("flag", "empty_join_is_dirty")].strip() == "true"
    return out
