#!/usr/bin/env python3
"""Replays a recorded counterexample: python3 gensym/replay.py evidence/replays/<file>.json
For the generated-code properties: compiles the recorded program with /repo's compiler, runs the API script(s) against the
generated module linked with /repo's runtime and evaluates the property's assertion on the native run.
exit 1 = the violation reproduces, 0 = it does not, 2 = cannot replay."""
import json, os, sys, shutil
import pipeline as P
from pipeline import L, M, N, W


def main():
    rec = json.load(open(sys.argv[1]))
    if isinstance(rec, list):
        # C08 / C11 / C16 / C17 / C18 / C19 write a list of self-describing records (inputs + how to run them)
        for r in rec[:10]:
            print(json.dumps(r, indent=1)[:3000])
        print("these records are re-derived and re-confirmed natively by the check itself: bin/check <property> quick")
        sys.exit(1)
    scratch = P.scratch_dir()
    exe, _ = P.build_compiler()
    src = os.path.join(scratch, "replay_src")
    out = os.path.join(scratch, "replay_out")
    shutil.rmtree(src, ignore_errors=True)
    os.makedirs(src)
    name = rec["program"].replace("_selfcomp", "")
    if "_rule_" in name:
        name = name[:name.index("_rule_")]
    open(os.path.join(src, name + ".eql"), "w").write(rec["eql"])
    p = P.sh([exe, src, out])
    if p.returncode != 0:
        print("the compiler rejects the program: " + p.stderr[-500:])
        sys.exit(2)
    su = L.Setup(os.path.join(out, M.snake(name) + ".eql.rs"), os.path.join(src, name + ".eql"), 2, repo=P.REPO)
    ctx, I, sch = su.fresh()
    h = N.NativeHarness(scratch, repo=P.REPO)
    h.add(name, su.rs_path, su.prog, sch)
    kind = rec.get("kind") or ("struct" if rec["property"] == "C04" else "closed")
    script = rec["script"]
    if kind == "selfcomp":
        import selfcomp as SC
        ok, obs = SC.replay(su, sch, h, name, (script["history_1"], script["history_2"]))
        print("history 1:", "; ".join(script["history_1"]))
        print("history 2:", "; ".join(script["history_2"]))
    elif kind == "rule-sound":
        import canon
        ok, o, cert = canon.replay_sound(h, name, su, sch, rec["info"]["violation"])
        obs = [o]
    elif kind == "rule-level":
        import canon
        v = {"script": script[:-1], "query": script[-1], "expect": "Some" if rec["info"]["missing"].endswith("defined") else "true"}
        ok, o = canon.replay(h, name, sch, su.prog, v)
        obs = [o]
    elif kind == "forced":
        ok, obs = W.replay_forced(su, sch, h, name, script, rec["info"])
    elif kind == "effects":
        ok, obs = W.replay_effects(su, sch, h, name, script)
    else:
        if kind == "closed-resume":
            kind = "closed"
        ok, obs = W.replay(su, sch, h, name, script, kind, su.rules)
    if kind != "selfcomp":
        print("script:", "; ".join(script))
    print("reproduces:", ok)
    for o in obs[:10]:
        print("  ", o)
    sys.exit(1 if ok else 0)


if __name__ == "__main__":
    main()
