#!/usr/bin/env python3
"""Replays a recorded counterexample: python3 gensym/replay.py evidence/replays/<file>.json
Compiles the program with /repo's compiler, runs the API script against the generated module linked with /repo's
runtime and evaluates the property's assertion on the dumped native state.  exit 1 = violation reproduces."""
import json, os, sys, shutil
import pipeline as P
from pipeline import L, M, N, W


def main():
    rec = json.load(open(sys.argv[1]))
    scratch = P.scratch_dir()
    exe, _ = P.build_compiler()
    src = os.path.join(scratch, "replay_src")
    out = os.path.join(scratch, "replay_out")
    shutil.rmtree(src, ignore_errors=True)
    os.makedirs(src)
    name = rec["program"]
    open(os.path.join(src, name + ".eql"), "w").write(rec["eql"])
    p = P.sh([exe, src, out])
    if p.returncode != 0:
        print("the compiler rejects the program: " + p.stderr[-500:])
        sys.exit(2)
    su = L.Setup(os.path.join(out, M.snake(name) + ".eql.rs"), os.path.join(src, name + ".eql"), 2, repo=P.REPO)
    ctx, I, sch = su.fresh()
    h = N.NativeHarness(scratch, repo=P.REPO)
    h.add(name, su.rs_path, su.prog, sch)
    kind = "struct" if rec["property"] == "C04" else "closed"
    ok, obs = W.replay(su, sch, h, name, rec["script"], kind, su.rules)
    print("script:", "; ".join(rec["script"]))
    print("reproduces:", ok)
    for o in obs[:10]:
        print("  ", o)
    sys.exit(1 if ok else 0)


if __name__ == "__main__":
    main()
