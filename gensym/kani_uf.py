"""Engine K: Kani on the real unification.rs (cross-check of the union-find part of C05)."""
import os, re, shutil, subprocess, time
import pipeline as P


def run(scratch, timeout=900):
    """returns dict(status 'ok'|'failed'|'inconclusive', detail, wall_s)"""
    t0 = time.time()
    d = os.path.join(scratch, "kani_uf")
    shutil.rmtree(d, ignore_errors=True)
    os.makedirs(os.path.join(d, "src"))
    tdir = os.path.join(P.VERIF, "kani", "unification")
    shutil.copy(os.path.join(tdir, "Cargo.toml.tmpl"), os.path.join(d, "Cargo.toml"))
    open(os.path.join(d, "src", "lib.rs"), "w").write(open(os.path.join(tdir, "src", "lib.rs.tmpl")).read().replace("__REPO__", P.REPO))
    env = dict(os.environ, CARGO_NET_OFFLINE="true")
    cmd = "ulimit -v 12000000; timeout %d cargo kani --target-dir %s/target 2>&1" % (timeout, d)
    p = subprocess.run(["bash", "-c", cmd], cwd=d, env=env, capture_output=True, text=True)
    out = p.stdout
    res = {"wall_s": round(time.time() - t0, 1)}
    harness = {}
    cur = None
    for line in out.split("\n"):
        m = re.match(r"Checking harness (\S+?)\.\.\.", line)
        if m:
            cur = m.group(1)
        m = re.match(r"VERIFICATION:- (\w+)", line)
        if m and cur:
            harness[cur] = m.group(1)
    res["harnesses"] = harness
    main = [v for k, v in harness.items() if k.endswith("uf_matches_reference")]
    vac = [v for k, v in harness.items() if k.endswith("uf_vacuity_witness")]
    if main == ["SUCCESSFUL"] and vac == ["FAILED"]:
        res["status"] = "ok"
    elif main == ["FAILED"]:
        res["status"] = "failed"
        res["detail"] = "\n".join(l for l in out.split("\n") if "Failed Checks" in l or "FAILURE" in l)[:1500]
    else:
        res["status"] = "inconclusive"
        res["detail"] = out[-1500:]
    shutil.rmtree(d, ignore_errors=True)
    return res


if __name__ == "__main__":
    import json
    print(json.dumps(run(P.scratch_dir()), indent=1))
