"""C16: semi-naive plans enumerate exactly the matches containing a new tuple, once.

For every rule module of every corpus program, the real generated sub-rule functions are executed
symbolically over arbitrary disjoint new/old tables (universe U).  A match is identified by the values
of the loop variables in scope at the first `push` of a function.  With
  M(s)     = the age-erased query (new := old := new u old) reaches its body under assignment s
  M_old(s) = the same with new := old := old  (all matched tuples are old)
the solver shows for every assignment s and every table state
  #enumerations(s) over all sub-rules of the family  ==  1  if M(s) and not M_old(s),  0 otherwise,
and that all sub-rules of a family denote the same age-erased query (same variables, same conclusions).
For the implicit functionality rule the count is taken up to the swap of its two (symmetric) atoms.
"""
import itertools, json, os, re, sys, time
import pipeline as P
from pipeline import L, M, V, terms
from terms import T, F, Circuit
from values import StructV, SetV, VecL, UNIT, Unsupported, count_lits, int_eq
from interp import Interp, Scope, ty_name


def rule_modules(prog_files):
    """[(module name, env struct name, [fn items], entry fn item)] from the raw rsdump output"""
    out = []
    for path, items in prog_files.items():
        for it in items:
            if it["k"] != "Mod" or it["items"] is None:
                continue
            fns = [x for x in it["items"] if x["k"] == "Fn"]
            envs = [x for x in it["items"] if x["k"] == "Struct" and x["name"].endswith("Env")]
            entry = [f for f in fns if any("no_mangle" in a for a in f["attrs"])]
            if len(envs) != 1 or len(entry) != 1:
                continue
            subs = [f for f in fns if f is not entry[0]]
            out.append((it["name"], envs[0], subs, entry[0]))
    return out


def family_of(fname):
    m = re.match(r"^(.*)_(\d+)$", fname)
    return m.group(1) if m else fname


def build_env(ctx, envdecl, U, mode, base):
    """env struct value; index tables are derived from symbolic base relations (new/old disjoint).
    mode: 'real' | 'erased' (new := old := new u old) | 'oldonly' (new := old := old)"""
    c = ctx.c
    f = {}
    outs = {}
    for fd in envdecl["fields"]["fields"]:
        name = fd["name"]
        if name == "phantom":
            f[name] = UNIT
            continue
        m = M.FIELD.match(name)
        if m and ty_name(fd["ty"]).startswith("PrefixTree"):
            rel = m.group("rel")
            eqs = [int(x) for x in m.group("eqs").split("_")] if m.group("eqs") else None
            order = [int(x) for x in m.group("order").split("_") if x != ""]
            arity = len(eqs) if eqs is not None else len(order)
            key = (rel, arity)
            if key not in base:
                new, old = {}, {}
                for row in itertools.product(range(U), repeat=arity):
                    a = ctx.fresh_bool("%s.new%s" % (rel, list(row)))
                    b = ctx.fresh_bool("%s.old%s" % (rel, list(row)))
                    ctx.assumes.append(-c.and2(a, b))
                    new[row], old[row] = a, b
                base[key] = (new, old)
            new, old = base[key]
            if mode == "real":
                src = new if m.group("age") == "new" else old
            elif mode == "erased":
                src = {r: c.or2(new[r], old[r]) for r in new}
            else:
                src = old
            ix = M.Index(name, rel, m.group("age"), eqs, order, None)
            cells = {}
            for row, g in src.items():
                pr = ix.project(row)
                if pr is not None:
                    cells[pr] = c.or2(cells.get(pr, F), g)
            f[name] = SetV(len(order), cells, U, frozen=True)
        elif name.startswith("new_"):
            f[name] = VecL()
            outs[name] = f[name]
        else:
            raise Unsupported("rule environment field %s not understood" % name)
    return StructV(envdecl["name"], f), outs


def run_family(su, U, envdecl, fns, mode, ctx, base):
    """executes every sub-rule function; returns {fn name: [(guard, sigma, out field, value, line)]}"""
    I = Interp(su.prog, ctx, loop_bound=U)
    events = {}
    cur = [None]

    def on_push(recv, g, val, scope, e):
        sigma = {}
        s = scope
        while s is not None:
            for k, v in s.vars.items():
                if isinstance(v, int) and not isinstance(v, bool) and k not in sigma:
                    sigma[k] = v
            s = s.parent
        events[cur[0]].append((g, tuple(sorted(sigma.items())), e.get("line"), val))
    I.on_push = on_push
    for fn in fns:
        env, outs = build_env(ctx, envdecl, U, mode, base)
        cur[0] = fn["sig"]["name"]
        events[cur[0]] = []
        I.call_fn(fn, T, [env])
    return events


def check_program(task):
    P.limit_memory(16)
    t0 = time.time()
    res = {"program": task["program"], "U": task["U"], "families": 0, "obligations": 0, "violations": [], "samples": [], "queries": 0}
    try:
        su = L.Setup(task["rs"], task["eql"], task["U"], repo=P.REPO)
        from loader import dump
        files = dump([task["rs"]])
        U = task["U"]
        for modname, envdecl, subs, entry in rule_modules(files):
            fams = {}
            for fn in subs:
                fams.setdefault(family_of(fn["sig"]["name"]), []).append(fn)
            for fam, fns in sorted(fams.items()):
                ctx = V.set_ctx(V.Ctx(Circuit(), U=U))
                c = ctx.c
                base = {}
                real = run_family(su, U, envdecl, fns, "real", ctx, base)
                erased = run_family(su, U, envdecl, fns, "erased", ctx, base)
                oldonly = run_family(su, U, envdecl, fns[:1], "oldonly", ctx, base)
                names = [fn["sig"]["name"] for fn in fns]
                first_line = {n: min([ev[2] for ev in erased[n]] or [0]) for n in names}

                def reach(evs, n):
                    d = {}
                    for g, sigma, line, val in evs[n]:
                        if line == first_line[n]:
                            d.setdefault(sigma, []).append(g)
                    return d
                R = {n: reach(real, n) for n in names}
                E = {n: reach(erased, n) for n in names}
                O = reach(oldonly, names[0])
                sigmas = set()
                for n in names:
                    sigmas |= set(E[n]) | set(R[n])
                res["families"] += 1
                nvars = max([len(s_) for s_ in sigmas] + [0])
                res.setdefault("family_vars", {})[fam] = nvars
                goals = []
                if not any(M.FIELD.match(fd["name"]) for fd in envdecl["fields"]["fields"]):
                    # a rule with empty premise: there is no tuple to label; the generated module re-runs it in every
                    # iteration (the empty_join_is_dirty flag is not consulted) -- recorded as known finding F8
                    res.setdefault("empty_premise_families", []).append(fam)
                    if all(len(R[n]) <= 1 for n in names):
                        continue
                # (b) same variables, same age-erased query, same conclusions in every sub-rule
                varsets = {n: set(k for s in E[n] for k, _ in s) for n in names}
                if len(set(map(frozenset, varsets.values()))) > 1:
                    res["violations"].append({"family": fam, "what": "sub-rules bind different variables", "detail": {n: sorted(v) for n, v in varsets.items()}})
                    continue
                concl = {}
                for n in names:
                    cs = set()
                    for g, sigma, line, val in erased[n]:
                        cs.add((sigma, line - first_line[n], val))
                    concl[n] = set((s, v) for s, _, v in cs)
                is_fun = modname.startswith("functionality")
                for s in sorted(sigmas):
                    Ms = c.orl(E[names[0]].get(s, []))
                    for n in names[1:]:
                        goals.append(("%s: %s and %s denote the same age-erased query at %s" % (fam, names[0], n, dict(s)), c.iff(Ms, c.orl(E[n].get(s, [])))))
                    Mold = c.orl(O.get(s, []))
                    lits = [g for n in names for g in R[n].get(s, [])]
                    cnt = count_lits(lits, cap=2)
                    want1 = c.and2(Ms, -Mold)
                    if not is_fun:
                        goals.append(("%s: assignment %s with a new tuple is enumerated exactly once" % (fam, dict(s)), c.implies(want1, int_eq(cnt, 1))))
                        goals.append(("%s: assignment %s without a new tuple / without a match is not enumerated" % (fam, dict(s)), c.implies(-want1, int_eq(cnt, 0))))
                    else:
                        goals.append(("%s: assignment %s is enumerated at most once" % (fam, dict(s)), -int_eq(cnt, 2)))
                        goals.append(("%s: assignment %s without a new tuple / without a match is not enumerated" % (fam, dict(s)), c.implies(-want1, int_eq(cnt, 0))))
                        # up to the symmetry of the two atoms: some transposition of two variables gives the twin
                        d = dict(s)
                        twins = []
                        ks = sorted(d)
                        for a in range(len(ks)):
                            for b in range(a + 1, len(ks)):
                                d2 = dict(d)
                                d2[ks[a]], d2[ks[b]] = d[ks[b]], d[ks[a]]
                                twins.append(tuple(sorted(d2.items())))
                        anyenum = c.orl([g for tw in [s] + twins for n in names for g in R[n].get(tw, [])])
                        goals.append(("%s: assignment %s with a new tuple is enumerated (up to the swap of the two atoms)" % (fam, dict(s)), c.implies(want1, anyenum)))
                for n in names[1:]:
                    if concl[n] != concl[names[0]]:
                        res["violations"].append({"family": fam, "what": "sub-rules push different conclusions", "detail": [names[0], n]})
                res["obligations"] += len(goals)
                bad = c.orl([-l for _, l in goals])
                r, mdl = terms.solve(c, ctx.assumes + [bad], solver=task["solver"], timeout_s=task["timeout"])
                res["queries"] += 1
                if r == "sat":
                    vals = c.evaluate([l for _, l in goals], mdl)
                    failing = [lab for (lab, _), v in zip(goals, vals) if not v]
                    # the table state of the counterexample
                    state = {}
                    for (rel, ar), (new, old) in base.items():
                        state[rel] = {"new": [list(r_) for r_, g in new.items() if c.evaluate([g], mdl)[0]],
                                      "old": [list(r_) for r_, g in old.items() if c.evaluate([g], mdl)[0]]}
                    res["violations"].append({"family": fam, "what": failing[:4], "tables": state})
                # vacuity: some assignment is enumerated
                rv, _ = terms.solve(c, ctx.assumes + [c.orl([g for n in names for gs in R[n].values() for g in gs])], solver=task["solver"], timeout_s=task["timeout"])
                res["queries"] += 1
                if rv != "sat" and sigmas:
                    res.setdefault("vacuous", []).append(fam)
                if len(res["samples"]) < 2 and goals:
                    res["samples"].append(goals[len(goals) // 2][0])
        res["status"] = "ok"
    except (Unsupported, terms.SolverError, P.Inconclusive, MemoryError) as ex:
        res["status"] = "inconclusive"
        res["reason"] = "%s: %s" % (type(ex).__name__, ex)
    except Exception:
        import traceback
        res["status"] = "inconclusive"
        res["reason"] = traceback.format_exc()[-1500:]
    res["wall_s"] = round(time.time() - t0, 2)
    return res


def main():
    tier = sys.argv[1]
    seed = int(os.environ.get("VERIF_SEED", "1"))
    t0 = time.time()
    scratch = P.scratch_dir()
    try:
        P.ensure_rsdump()
        exe, build_s = P.build_compiler()
        corpus = P.Corpus(scratch, exe, seed, tier, want_random=True)
        extra = P.repo_theories(scratch, exe) if tier != "quick" else {}
    except P.Inconclusive as ex:
        print("INCONCLUSIVE: %s" % ex)
        sys.exit(2)
    tasks = []
    progs = dict(corpus.programs)
    progs.update(extra)
    for name, p in sorted(progs.items()):
        Us = ([2, 3] if p.get("kind") == "kernel" else [2]) if tier == "quick" else [2, 3]
        if tier != "quick" and p.get("kind") == "kernel":
            # U = 4 for kernels whose relations have arity <= 2: with as many elements as a family has match variables every
            # equality pattern among the values of a match is covered (the enumeration count of one assignment depends on the
            # presence of its own tuples only, and the generated code is equivariant under renaming of elements)
            txt = open(p["eql"]).read()
            import re as _re
            ar = [len([a for a in m.group(1).split(",") if a.strip()]) for m in _re.finditer(r"pred\s+\w+\(([^)]*)\)", txt)] + \
                 [len([a for a in m.group(1).split(",") if a.strip()]) + 1 for m in _re.finditer(r"func\s+\w+\(([^)]*)\)", txt)]
            if ar and max(ar) <= 2 and "enum" not in txt:
                Us = [2, 3, 4]
        for U in Us:
            if p.get("kind") == "repo" and U > 2:
                continue
            tasks.append({"program": name, "rs": p["rs"], "eql": p["eql"], "U": U, "solver": os.environ.get("VERIF_SOLVER", "kissat"),
                          "timeout": 120 if tier == "quick" else 900})
    import multiprocessing as mp
    with mp.get_context("fork").Pool(min(16, len(tasks)), maxtasksperchild=1) as pool:
        results = pool.map(check_program, tasks, chunksize=1)
    # rule level, any model size: symbolic ages on the canonical database of every reference stage (canon.ages_program)
    import canon
    allp = dict(progs)
    allp.update(corpus.rule_level_only)
    atasks = [{"program": name, "rs": p["rs"], "eql": p["eql"], "solver": os.environ.get("VERIF_SOLVER", "kissat"), "timeout": 120 if tier == "quick" else 900}
              for name, p in sorted(allp.items())]
    with mp.get_context("fork").Pool(min(16, len(atasks)), maxtasksperchild=2) as pool:
        aresults = pool.map(canon.ages_program, atasks, chunksize=1)
    progs = allp
    wall = time.time() - t0
    viol = [(r["program"], r["U"], v) for r in results for v in r["violations"]]
    viol += [(r["program"], 0, {"family": "%s#%d (rule level, canonical database)" % (v["rule"], v["stage"]), "what": v.get("what"), "tables": v.get("ages"), "count": v.get("count")})
             for r in aresults for v in r["violations"]]
    results_all_inconc = [r for r in aresults if r["status"] != "ok"]
    # the repository's own (large) theories are an extra of the thorough tier: a solver timeout on one of them is recorded as
    # undecided (nothing is claimed for that theory), it does not make the check inconclusive
    undecided = [r for r in results if r["status"] != "ok" and progs.get(r["program"], {}).get("kind") == "repo" and "timeout" in r.get("reason", "")]
    inconc = [r for r in results if r["status"] != "ok" and r not in undecided] + [dict(r, U=0) for r in results_all_inconc]
    replay = None
    if viol:
        os.makedirs(os.path.join(P.VERIF, "evidence", "replays"), exist_ok=True)
        replay = os.path.join(P.VERIF, "evidence", "replays", "C16.json")
        json.dump([{"program": n, "U": U, "eql": open(progs[n]["eql"]).read(), "violation": v,
                    "how": "compile the program with /repo's eqlog; the listed sub-rule functions of the generated module, run on the listed new/old tables, enumerate the assignment the wrong number of times"}
                   for n, U, v in viol[:20]], open(replay, "w"), indent=1)
    known = [k for k in P.load_known() if k["property"] == "C16"]
    empties = sorted(set("%s/%s" % (r["program"], f) for r in results for f in r.get("empty_premise_families", [])))
    cov = {
        "empty_premise_families": empties,
        "programs": len(progs),
        "disagreements_checked": sum(r["obligations"] for r in results) + sum(r["obligations"] for r in aresults),
        "samples": [s for r in results for s in r["samples"]][:6] or ["(none)"],
        "families": sum(r["families"] for r in results),
        "rule_level_ages_on_canonical_databases": {"programs": len(aresults), "stages": sum(r["stages"] for r in aresults), "obligations": sum(r["obligations"] for r in aresults),
                                                   "solver_queries": sum(r["queries"] for r in aresults), "largest_premise_atoms": max([r["max_atoms"] for r in aresults] + [0]),
                                                   "skipped": [s_ for r in aresults for s_ in r["skipped"]][:20],
                                                   "claim": "on the canonical database of a stage's premise with a symbolic age per tuple (an element of an old tuple is old) the rule module enumerates the match exactly once iff some premise tuple is new; independent of the model size for matches with pairwise distinct values"},
        "families_with_all_equality_patterns_covered (match variables <= universe)": sum(1 for r in results for f, nv in r.get("family_vars", {}).items() if nv <= r["U"]),
        "families_by_program_and_universe": len([1 for r in results for f in r.get("family_vars", {})]),
        "solver_queries": sum(r["queries"] for r in results) + sum(r["queries"] for r in aresults),
        "bounds": {"universe": sorted(set(t["U"] for t in tasks)), "tables": "arbitrary disjoint new/old contents of every relation"},
        "functions_encoded": "every sub-rule function of every rule module of the generated code (real text, parsed on this run)",
        "program_names": sorted(progs),
        "undecided_within_budget (nothing claimed)": sorted(set("%s U=%d" % (r["program"], r["U"]) for r in undecided)),
        "inconclusive": [{k: r.get(k) for k in ("program", "U", "reason")} for r in inconc][:10],
        "explanation": __doc__,
    }
    P.write_evidence("C16", tier, seed, "translation_validation", cov,
                     ["PrefixTreeN set semantics (C08)", "programs are sampled: kernels, seeded random programs and the repository's own theories",
                      "a match is identified by the values of the loop variables of the generated code"], wall, len(viol))
    if empties and any(k["id"] == "F8" for k in known):
        print("KNOWN-FINDING: property=C16 %s [F8] e.g. %s" % ([k for k in known if k["id"] == "F8"][0]["what"], empties[0]))
    elif empties:
        viol.append((empties[0].split("/")[0], 0, {"family": empties[0], "what": "a rule with empty premise is enumerated in every iteration"}))
    if viol:
        print("VIOLATION property=C16 replay=%s" % replay)
        for n, U, v in viol[:5]:
            print("  program=%s U=%d family=%s: %s" % (n, U, v.get("family"), str(v.get("what"))[:300]))
        sys.exit(1)
    if inconc:
        for r in inconc[:10]:
            print("INCONCLUSIVE: %s U=%d: %s" % (r["program"], r["U"], r.get("reason", "")[:400]))
        sys.exit(2)
    print("OK property=C16 tier=%s programs=%d families=%d obligations=%d wall=%.0fs" % (tier, len(progs), cov["families"], cov["disagreements_checked"], wall))


def _guarded_main():
    """an internal error of the machinery is never a verdict: exit 2 (inconclusive), not a traceback with exit 1"""
    try:
        main()
    except SystemExit:
        raise
    except BaseException:
        import traceback
        print("INCONCLUSIVE: internal error of the check: " + traceback.format_exc()[-1500:])
        sys.exit(2)


if __name__ == "__main__":
    _guarded_main()
