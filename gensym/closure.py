"""Drivers that execute pieces of the generated `close_until` from symbolic states."""
from terms import T, F
import values as V
from values import NativeFn, mkbool, Unsupported, StructV
from interp import Scope, Frame


def split_close_until(prog, model_ty):
    item = prog.methods.get((model_ty, "close_until"))
    if item is None:
        raise Unsupported("no close_until")
    body = item["body"]
    li = [i for i, s in enumerate(body) if s["k"] == "Expr" and s["expr"]["k"] == "Loop"]
    if len(li) != 1 or li[0] != len(body) - 1:
        raise Unsupported("close_until is not `prologue; loop { .. }`")
    pro = body[:li[0]]
    if not pro or pro[-1]["k"] != "Let" or pro[-1]["pat"].get("name") != "delta":
        raise Unsupported("close_until: expected `let mut delta = ModelDelta::new();` before the loop")
    return item, pro[:-1], pro[-1], body[li[0]]["expr"]


def mk_scope(model, cond, model_ty):
    sc = Scope()
    sc.vars["self"] = model
    sc.vars["condition"] = NativeFn(cond, "condition")
    sc.vars["Self"] = ("selfty", model_ty)
    return sc


def run_prologue(I, schema, model, cond):
    """canonicalize; recompute; `if condition(self) { return true }` -- returns (returned literal, retval)"""
    item, pro, letdelta, loop = split_close_until(I.p, schema.model)
    sc = mk_scope(model, cond, schema.model)
    fr = Frame("close_until", item["sig"]["output"])
    I.exec_block(pro, sc, fr, T)
    return fr.returned, fr.retval


def run_loop_iteration(I, schema, model, delta, cond, g=T):
    """one execution of the loop body from (model, delta); returns (returned literal, retval)"""
    item, pro, letdelta, loop = split_close_until(I.p, schema.model)
    sc = mk_scope(model, cond, schema.model)
    sc.vars["delta"] = delta
    fr = Frame("close_until", item["sig"]["output"])
    fr.loops.append({"brk": F, "cont": F})
    I.exec_block(loop["body"], sc, fr, g)
    l = fr.loops.pop()
    if l["brk"] != F:
        raise Unsupported("close_until loop contains a break")
    return fr.returned, fr.retval
