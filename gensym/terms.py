"""Boolean term DAG (and-inverter graph) with hash-consing, SMT-LIB2 / DIMACS emission and solver drivers.

A literal is a non-zero Python int: +n is node n, -n its negation.  Node 1 is the constant true,
so T = 1 and F = -1.  Input variables and AND gates get fresh node numbers.  Everything the
symbolic executor produces is propositional (small-domain integers are one-hot / binary encoded
over these literals), so a query is a circuit plus a list of asserted literals; it is handed to an
SMT solver as SMT-LIB2 (declare-const per node + defining equation: the "let-naming" that the
prototype showed to be necessary) and, for cross-checking, to a SAT solver as Tseitin CNF.
"""
import os, subprocess, tempfile, time, shutil

T = 1
F = -1


class Circuit:
    def __init__(self):
        self.ands = {}          # (a, b) -> node
        self.gate = [None, None]  # node -> (a, b) for AND gates, None for const / inputs
        self.names = {}         # input node -> name
        self.byname = {}
        self.n = 1

    # ---- construction
    def var(self, name):
        if name in self.byname:
            raise KeyError("duplicate variable " + name)
        self.n += 1
        self.gate.append(None)
        self.names[self.n] = name
        self.byname[name] = self.n
        return self.n

    def fresh(self, prefix):
        k = len(self.names)
        return self.var("%s#%d" % (prefix, k))

    def and2(self, a, b):
        if a == F or b == F or a == -b:
            return F
        if a == T or a == b:
            return b
        if b == T:
            return a
        if a > b:
            a, b = b, a
        key = (a, b)
        r = self.ands.get(key)
        if r is None:
            self.n += 1
            r = self.n
            self.gate.append(key)
            self.ands[key] = r
        return r

    def and_(self, *xs):
        r = T
        for x in xs:
            r = self.and2(r, x)
            if r == F:
                return F
        return r

    def andl(self, xs):
        return self.and_(*xs)

    def or2(self, a, b):
        return -self.and2(-a, -b)

    def or_(self, *xs):
        r = F
        for x in xs:
            r = -self.and2(-r, -x)
            if r == T:
                return T
        return r

    def orl(self, xs):
        return self.or_(*xs)

    def ite(self, c, a, b):
        if c == T:
            return a
        if c == F:
            return b
        if a == b:
            return a
        if a == T:
            return self.or2(c, b)
        if a == F:
            return self.and2(-c, b)
        if b == T:
            return self.or2(-c, a)
        if b == F:
            return self.and2(c, a)
        return self.or2(self.and2(c, a), self.and2(-c, b))

    def implies(self, a, b):
        return self.or2(-a, b)

    def iff(self, a, b):
        return self.ite(a, b, -b)

    def xor(self, a, b):
        return self.ite(a, -b, b)

    def at_most_one(self, xs):
        xs = [x for x in xs if x != F]
        r = T
        seen = F
        for x in xs:
            r = self.and2(r, -self.and2(seen, x))
            seen = self.or2(seen, x)
        return r

    def exactly_one(self, xs):
        return self.and2(self.at_most_one(xs), self.orl(xs))

    # ---- cone of influence
    def cone(self, roots):
        seen = set()
        stack = [abs(r) for r in roots]
        while stack:
            n = stack.pop()
            if n in seen or n == 1:
                continue
            seen.add(n)
            g = self.gate[n]
            if g is not None:
                stack.append(abs(g[0]))
                stack.append(abs(g[1]))
        return sorted(seen)

    # ---- evaluation under an assignment of the inputs (dict node -> bool); missing inputs = False
    def evaluate(self, roots, assignment):
        val = {1: True}
        for n in self.cone(roots):
            g = self.gate[n]
            if g is None:
                val[n] = bool(assignment.get(n, False))
            else:
                a, b = g
                va = val[abs(a)] if a > 0 else not val[abs(a)]
                vb = val[abs(b)] if b > 0 else not val[abs(b)]
                val[n] = va and vb
        return [(val[abs(r)] if r > 0 else not val[abs(r)]) for r in roots]

    # ---- emission
    def smt2(self, asserts, want_model=True):
        def lit(x):
            if x == T:
                return "true"
            if x == F:
                return "false"
            return ("n%d" % x) if x > 0 else ("(not n%d)" % -x)
        nodes = self.cone(asserts)
        out = ["(set-logic QF_UF)"]
        inputs = []
        for n in nodes:
            out.append("(declare-const n%d Bool)" % n)
            if self.gate[n] is None:
                inputs.append(n)
        for n in nodes:
            g = self.gate[n]
            if g is not None:
                out.append("(assert (= n%d (and %s %s)))" % (n, lit(g[0]), lit(g[1])))
        for a in asserts:
            out.append("(assert %s)" % lit(a))
        out.append("(check-sat)")
        if want_model and inputs:
            # chunk get-value to keep lines reasonable
            for i in range(0, len(inputs), 500):
                out.append("(get-value (%s))" % " ".join("n%d" % n for n in inputs[i:i + 500]))
        return "\n".join(out) + "\n", inputs, len(nodes)

    def dimacs(self, asserts):
        nodes = self.cone(asserts)
        idx = {n: i + 1 for i, n in enumerate(nodes)}
        def lit(x):
            return idx[x] if x > 0 else -idx[-x]
        cl = []
        for a in asserts:
            if a == T:
                continue
            if a == F:
                cl.append("")
                continue
            cl.append("%d" % lit(a))
        for n in nodes:
            g = self.gate[n]
            if g is None:
                continue
            a, b = g
            la = None if abs(a) == 1 else lit(a)
            lb = None if abs(b) == 1 else lit(b)
            x = idx[n]
            # constants cannot occur inside gates thanks to and2's simplification
            cl.append("-%d %d" % (x, la))
            cl.append("-%d %d" % (x, lb))
            cl.append("%d %d %d" % (x, -la, -lb))
        text = "p cnf %d %d\n" % (len(nodes), len(cl)) + "".join(c + " 0\n" for c in cl)
        return text, idx


class SolverError(Exception):
    pass


SOLVERS = {
    "z3": ["/usr/bin/z3", "-smt2"],
    "z3-new": ["z3-new", "-smt2"],
    "cvc5": ["cvc5", "--lang", "smt2", "--produce-models"],
}

STATS = {"queries": 0, "sat": 0, "unsat": 0, "solver_s": 0.0, "nodes_max": 0, "by_solver": {}}


def solve(circ, asserts, solver="z3", timeout_s=600, want_model=True, keep=None):
    """Returns ('unsat', None) or ('sat', {input node -> bool}) ; raises SolverError on unknown /
    timeout / (error lines (inconclusive, never success)."""
    asserts = [a for a in asserts if a != T]
    if any(a == F for a in asserts):
        STATS["queries"] += 1
        STATS["unsat"] += 1
        return "unsat", None
    if solver == "kissat":
        return solve_sat(circ, asserts, timeout_s, keep)
    text, inputs, nn = circ.smt2(asserts, want_model)
    STATS["nodes_max"] = max(STATS["nodes_max"], nn)
    fd, path = tempfile.mkstemp(suffix=".smt2", dir=os.environ.get("VERIF_SCRATCH"))
    with os.fdopen(fd, "w") as f:
        f.write(text)
    t0 = time.time()
    try:
        cmd = SOLVERS[solver] + [path]
        try:
            p = subprocess.run(cmd, capture_output=True, text=True, timeout=timeout_s)
        except subprocess.TimeoutExpired:
            raise SolverError("timeout after %ds (%s, %d nodes)" % (timeout_s, solver, nn))
        out = p.stdout
        dt = time.time() - t0
        STATS["queries"] += 1
        STATS["solver_s"] += dt
        STATS["by_solver"][solver] = STATS["by_solver"].get(solver, 0) + 1
        first = out.strip().split("\n", 1)[0].strip()
        errs = [l for l in (out + "\n" + p.stderr).split("\n") if "(error" in l]
        if first == "unsat":
            # the only tolerated error is the get-value that follows an unsat answer
            errs = [l for l in errs if "model is not available" not in l and "cannot get value" not in l.lower()]
        if errs:
            raise SolverError("solver error: " + " | ".join(errs)[:500])
        if first == "unsat":
            STATS["unsat"] += 1
            return "unsat", None
        if first == "sat":
            STATS["sat"] += 1
            model = {}
            if want_model:
                import re
                for m in re.finditer(r"\(n(\d+)\s+(true|false)\)", out):
                    model[int(m.group(1))] = m.group(2) == "true"
            return "sat", model
        raise SolverError("solver answered %r: %s" % (first, (out + p.stderr)[:300]))
    finally:
        if keep:
            shutil.copy(path, keep)
        os.unlink(path)


def solve_sat(circ, asserts, timeout_s=600, keep=None):
    text, idx = circ.dimacs(asserts)
    fd, path = tempfile.mkstemp(suffix=".cnf", dir=os.environ.get("VERIF_SCRATCH"))
    with os.fdopen(fd, "w") as f:
        f.write(text)
    t0 = time.time()
    try:
        try:
            p = subprocess.run(["kissat", "-q", path], capture_output=True, text=True, timeout=timeout_s)
        except subprocess.TimeoutExpired:
            raise SolverError("timeout after %ds (kissat)" % timeout_s)
        STATS["queries"] += 1
        STATS["solver_s"] += time.time() - t0
        STATS["by_solver"]["kissat"] = STATS["by_solver"].get("kissat", 0) + 1
        if p.returncode == 20:
            STATS["unsat"] += 1
            return "unsat", None
        if p.returncode == 10:
            STATS["sat"] += 1
            vals = {}
            for line in p.stdout.split("\n"):
                if line.startswith("v "):
                    for tok in line[2:].split():
                        v = int(tok)
                        if v != 0:
                            vals[abs(v)] = v > 0
            inv = {i: n for n, i in idx.items()}
            return "sat", {inv[i]: b for i, b in vals.items() if circ.gate[inv[i]] is None}
        raise SolverError("kissat exit %d: %s" % (p.returncode, p.stdout[:300]))
    finally:
        if keep:
            shutil.copy(path, keep)
        os.unlink(path)
