"""Runs rsdump on source files and builds a Program."""
import json, os, subprocess
from interp import Program

RSDUMP = os.path.join(os.path.dirname(os.path.abspath(__file__)), "..", "tools", "rsdump", "target", "release", "rsdump")


def dump(paths):
    out = subprocess.run([RSDUMP] + list(paths), capture_output=True, text=True)
    if out.returncode != 0:
        raise RuntimeError("rsdump failed: " + out.stderr)
    return json.loads(out.stdout)


def load_program(paths):
    p = Program()
    p.load(dump(paths))
    return p
