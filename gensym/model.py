"""Knowledge about the shape of a generated eqlog module: schema extraction from the parsed source,
construction of arbitrary (symbolic) model states, and the structural invariants of DESIGN.md §4.

Everything here is derived from the generated text of the current run (field names and types of
the model struct, signatures of the insert_* functions); a field whose name cannot be decoded
makes the run inconclusive (Unsupported).
"""
import itertools, re
from terms import T, F
import values as V
from values import (BoolV, SInt, OPQ, UNDEF, UNIT, OptV, StructV, VecL, VecA, MapV, SetV, Unsupported, mkbool,
                    int_eq, int_lt, cases_of, mkint, merge)
from interp import ty_name, ty_args

FIELD = re.compile(r"^(?P<rel>.+?)_(?P<age>new|old)(?:_eqs_(?P<eqs>[0-9_]+?))?_order_(?P<order>[0-9_]*)(?P<own>_own|_all)?$")


def snake(s):
    out = []
    for i, ch in enumerate(s):
        if ch.isupper():
            if i > 0 and (not s[i - 1].isupper() or (i + 1 < len(s) and s[i + 1].islower())):
                out.append("_")
            out.append(ch.lower())
        elif ch.isdigit() and i > 0 and not s[i - 1].isdigit() and s[i - 1] != "_":
            out.append("_" + ch)
        else:
            out.append(ch)
    return "".join(out)


class Index:
    def __init__(self, field, rel, age, eqs, order, suffix):
        self.field, self.rel, self.age, self.eqs, self.order, self.suffix = field, rel, age, eqs, order, suffix

    def project(self, row):
        """the tuple stored in this index for a full row of the relation (None if the row is not on the diagonal)"""
        if self.eqs is not None:
            for i, j in enumerate(self.eqs):
                if row[i] != row[j]:
                    return None
            reps = [row[i] for i, j in enumerate(self.eqs) if i == j]
        else:
            reps = list(row)
        return tuple(reps[o] for o in self.order)

    def on_diagonal(self, row):
        return self.eqs is None or all(row[i] == row[j] for i, j in enumerate(self.eqs))


class Rel:
    def __init__(self, name):
        self.name = name
        self.arity = None
        self.types = None      # type snake names per column
        self.indices = []      # Index
        self.is_typeset = False
        self.kind = None       # 'pred' | 'func' | 'typeset'

    def full(self, age):
        """a full-arity, non-diagonal index of the given age (every relation has one)"""
        for ix in self.indices:
            if ix.age == age and ix.eqs is None and len(ix.order) == self.arity and ix.suffix in (None, "_all"):
                return ix
        raise Unsupported("relation %s has no full %s index" % (self.name, age))


class Schema:
    def __init__(self, prog):
        self.prog = prog
        mt = prog.aliases.get("Model")
        if mt is None:
            raise Unsupported("generated module has no `type Model = ..` alias")
        self.model = ty_name(mt)
        decl = prog.structs[self.model]
        self.fields = {f["name"]: f["ty"] for f in decl["fields"]}
        self.types = [n[:-len("_equalities")] for n in self.fields if n.endswith("_equalities")]
        self.rels = {}
        self.elem_index = {}     # field -> (rel, type)
        self.other = []
        for name, ty in self.fields.items():
            m = FIELD.match(name)
            if m:
                rel = self.rels.setdefault(m.group("rel"), Rel(m.group("rel")))
                eqs = [int(x) for x in m.group("eqs").split("_")] if m.group("eqs") else None
                order = [int(x) for x in m.group("order").split("_") if x != ""]
                ix = Index(name, rel.name, m.group("age"), eqs, order, m.group("own"))
                tn = ty_name(ty)
                mm = re.match(r"PrefixTree(\d)$", tn or "")
                if not mm or int(mm.group(1)) != len(order):
                    raise Unsupported("index field %s has type %s" % (name, tn))
                rel.indices.append(ix)
                continue
            m = re.match(r"^(.+)_element_index$", name)
            if m:
                self.elem_index[name] = None    # resolved below
                continue
            if any(name == t + s for t in self.types for s in ("_equalities", "_weights", "_uprooted")):
                continue
            if name == "empty_join_is_dirty":
                continue
            self.other.append(name)
        if self.other:
            raise Unsupported("model fields not understood: %s" % self.other)
        # arities / column types
        for rel in self.rels.values():
            if rel.name in self.types:
                rel.is_typeset, rel.kind, rel.arity, rel.types = True, "typeset", 1, [rel.name]
                continue
            ar = [len(ix.order) for ix in rel.indices if ix.eqs is None]
            if not ar:
                raise Unsupported("relation %s has only diagonal indices" % rel.name)
            rel.arity = max(ar)
            ins = prog.methods.get((self.model, "insert_" + rel.name))
            if ins is None:
                raise Unsupported("no insert_%s function" % rel.name)
            ptys = [snake(ty_name(i["ty"])) for i in ins["sig"]["inputs"] if i["k"] == "Typed"]
            if len(ptys) != rel.arity or any(t not in self.types for t in ptys):
                raise Unsupported("insert_%s signature %s does not match arity %d" % (rel.name, ptys, rel.arity))
            rel.types = ptys
            # a function's point query returns Option<value>; define_<f> exists only for functions that may be made defined
            q = prog.methods.get((self.model, rel.name))
            qout = ty_name(q["sig"]["output"]) if q is not None and q["sig"]["output"] is not None else None
            rel.kind = "func" if ((self.model, "define_" + rel.name) in prog.methods or qout == "Option") else "pred"
        for name in list(self.elem_index):
            base = name[:-len("_element_index")]
            ok = None
            for rel in self.rels.values():
                for t in self.types:
                    if base == rel.name + "_" + t:
                        ok = (rel.name, t)
            if ok is None:
                raise Unsupported("element index field %s not understood" % name)
            self.elem_index[name] = ok
        self.delta = prog.structs.get("ModelDelta")
        if self.delta is None:
            raise Unsupported("no ModelDelta struct")
        self.delta_fields = {f["name"]: f["ty"] for f in self.delta["fields"]}

    def user_rels(self):
        return [r for r in self.rels.values() if not r.is_typeset]


# ---------------------------------------------------------------------------------------------
class State:
    """a model value (StructV) together with accessors used by the invariants"""

    def __init__(self, schema, obj):
        self.s = schema
        self.o = obj

    def table(self, field):
        return self.o.f[field]

    def uf(self, t):
        return self.o.f[t + "_equalities"]

    def nelems(self, t):
        return self.uf(t).f["parents"].n

    def parent(self, t, i):
        return self.uf(t).f["parents"].s[i]

    def in_range(self, t, i):
        return int_lt(i, self.nelems(t))

    def is_root(self, t, i):
        """literal: i is an allocated element that is its own parent"""
        c = V.CTX.c
        p = self.parent(t, i)
        if p is UNDEF:
            return F
        return c.and2(self.in_range(t, i), int_eq(p, i))

    def root_of(self, t, i, depth=None):
        """symbolic root of concrete element i by chasing parents `depth` times"""
        depth = depth if depth is not None else V.CTX.cap
        cur = i
        pv = self.uf(t).f["parents"]
        for _ in range(depth):
            nxt = UNDEF
            for k, gk in cases_of(cur).items():
                if k < pv.cap and pv.s[k] is not UNDEF:
                    nxt = merge(gk, pv.s[k], nxt)
            cur = nxt if nxt is not UNDEF else cur
        return cur

    def rel_holds(self, rel, row, age=None):
        """literal: the (concrete) row is in the full index of rel, for age in {new, old, None=either}"""
        c = V.CTX.c
        r = self.s.rels[rel]
        out = F
        for a in (("new", "old") if age is None else (age,)):
            ix = r.full(a)
            out = c.or2(out, self.table(ix.field).cell(ix.project(row)))
        return out


def fresh_set(ctx, name, arity, U):
    cells = {}
    for t in itertools.product(range(U), repeat=arity):
        cells[t] = ctx.fresh_bool("%s%s" % (name, list(t)))
    return SetV(arity, cells, U)


def arbitrary_state(I, schema, tag="pre", uprooted_slots=None, defs_free=True):
    """a model struct all of whose containers are unconstrained symbolic values (ranges only)"""
    ctx = I.ctx
    U = ctx.U
    f = {}
    for t in schema.types:
        n = ctx.fresh_int("%s.%s.len" % (tag, t), 0, U)
        parents = VecA([ctx.fresh_int("%s.%s.par%d" % (tag, t, i), 0, U - 1) for i in range(U)] + [UNDEF] * (ctx.cap - U), n, ctx.cap)
        uf = StructV("Unification", {"parents": parents, "sizes": VecA(None, 0, ctx.cap)})
        f[t + "_equalities"] = uf
        f[t + "_weights"] = VecA([OPQ] * ctx.cap, n, ctx.cap)
        k = U if uprooted_slots is None else uprooted_slots
        f[t + "_uprooted"] = VecL([(ctx.fresh_bool("%s.%s.upr%d.g" % (tag, t, i)), ctx.fresh_int("%s.%s.upr%d" % (tag, t, i), 0, U - 1)) for i in range(k)])
    for rel in schema.rels.values():
        for ix in rel.indices:
            f[ix.field] = fresh_set(ctx, "%s.%s" % (tag, ix.field), len(ix.order), U)
    for name, (rel, t) in schema.elem_index.items():
        r = schema.rels[rel]
        m = MapV(mkdefault=lambda: VecL(), vty=None)
        for i in range(U):
            m.p[i] = ctx.fresh_bool("%s.%s.p%d" % (tag, name, i))
            rows = [row for row in itertools.product(range(U), repeat=r.arity)
                    if any(row[c] == i and r.types[c] == t for c in range(r.arity))]
            m.v[i] = VecL([(ctx.fresh_bool("%s.%s[%d]%s" % (tag, name, i, list(row))), row) for row in rows])
        f[name] = m
    f["empty_join_is_dirty"] = mkbool(ctx.fresh_bool(tag + ".empty_join_is_dirty"))
    return StructV(schema.model, f)


def arbitrary_delta(I, schema, tag="delta"):
    """the ModelDelta at the loop head of close_until: tuple / equality lists drained, definition
    lists arbitrary (every candidate argument tuple, ascending, each with a free presence bit)"""
    ctx = I.ctx
    f = {}
    for name, ty in schema.delta_fields.items():
        if name.endswith("_def"):
            a = ty_args(ty)[0]           # [u32; n]
            n = int(a["len"]["lit"]["v"])
            f[name] = VecL([(ctx.fresh_bool("%s.%s%s" % (tag, name, list(t))), t) for t in itertools.product(range(ctx.U), repeat=n)])
        else:
            f[name] = VecL()
    return StructV("ModelDelta", f)


# ---------------------------------------------------------------------------------------------
# invariants: each returns a list of (label, literal); the conjunction is the invariant
def inv_unionfind(st):
    c = V.CTX.c
    U = V.CTX.U
    out = []
    for t in st.s.types:
        pv = st.uf(t).f["parents"]
        n = pv.n
        out.append(("uf.%s.len<=U" % t, -int_lt(U, n)))
        out.append(("uf.%s.weights.len" % t, int_eq(st.o.f[t + "_weights"].n, n)))
        for i in range(U):
            inr = int_lt(i, n)
            p = pv.s[i]
            if p is UNDEF:
                out.append(("uf.%s.slot%d" % (t, i), -inr))
                continue
            out.append(("uf.%s.par%d.inrange" % (t, i), c.implies(inr, int_lt(p, n))))
            # acyclic: chasing parents U times reaches a fixed point
            r = st.root_of(t, i, U)
            rr = st.root_of(t, r, 1)
            out.append(("uf.%s.acyclic%d" % (t, i), c.implies(inr, int_eq(r, rr))))
    return out


def rows_of(rel, U):
    return itertools.product(range(U), repeat=rel.arity)


def inv_struct(st, canon=True, check_elem_index=True):
    """INV-struct (+ INV-canon if canon): all index copies of a relation describe one tuple set, new and old
    are disjoint, rows consist of allocated (canon: root) elements, every row is in the element index of each of
    its elements, type sets = roots."""
    c = V.CTX.c
    U = V.CTX.U
    out = []
    sch = st.s
    for rel in sch.rels.values():
        for row in rows_of(rel, U):
            holds = {}
            for age in ("new", "old"):
                base = rel.full(age)
                h = st.table(base.field).cell(base.project(row))
                holds[age] = h
                for ix in rel.indices:
                    if ix.age != age or ix is base or ix.eqs is not None:
                        continue
                    if len(ix.order) != rel.arity:
                        raise Unsupported("partial non-diagonal index " + ix.field)
                    out.append(("struct.%s%s==%s" % (ix.field, list(row), base.field), c.iff(st.table(ix.field).cell(ix.project(row)), h)))
            out.append(("struct.%s%s.new-old-disjoint" % (rel.name, list(row)), -c.and2(holds["new"], holds["old"])))
            anyh = c.or2(holds["new"], holds["old"])
            if rel.is_typeset:
                t = rel.name
                out.append(("struct.typeset.%s[%d]==root" % (t, row[0]), c.iff(anyh, st.is_root(t, row[0]))))
                continue
            for col, t in enumerate(rel.types):
                ok = st.is_root(t, row[col]) if canon else st.in_range(t, row[col])
                out.append(("struct.%s%s.col%d.%s" % (rel.name, list(row), col, "root" if canon else "allocated"), c.implies(anyh, ok)))
            if check_elem_index:
                for name, (rn, t) in sch.elem_index.items():
                    if rn != rel.name:
                        continue
                    for i in set(row[col] for col in range(rel.arity) if rel.types[col] == t):
                        m = st.o.f[name]
                        ent = c.orl([c.and2(g, V.tuple_match(r0, row)) for g, r0 in m.v[i].items()]) if isinstance(m.v[i], VecL) else F
                        out.append(("struct.%s[%d] has %s" % (name, i, list(row)), c.implies(anyh, c.and2(m.p[i], ent))))
        # diagonal copies: exactly the diagonal rows, per age
        for ix in rel.indices:
            if ix.eqs is None:
                continue
            base = rel.full(ix.age)
            want = {}
            for row in rows_of(rel, U):
                pr = ix.project(row)
                if pr is not None:
                    want[pr] = c.or2(want.get(pr, F), st.table(base.field).cell(base.project(row)))
            for pr in itertools.product(range(U), repeat=len(ix.order)):
                out.append(("struct.diag.%s%s" % (ix.field, list(pr)), c.iff(st.table(ix.field).cell(pr), want.get(pr, F))))
    return out


def inv_no_uprooted(st):
    return [("canon.%s_uprooted empty" % t, st.o.f[t + "_uprooted"].is_empty()) for t in st.s.types]


def inv_age(st):
    """INV-age: every element of an old row is in the old type set"""
    c = V.CTX.c
    U = V.CTX.U
    out = []
    for rel in st.s.user_rels():
        base = rel.full("old")
        for row in rows_of(rel, U):
            h = st.table(base.field).cell(base.project(row))
            for col, t in enumerate(rel.types):
                ts = st.s.rels[t].full("old")
                out.append(("age.%s%s.col%d" % (rel.name, list(row), col), c.implies(h, st.table(ts.field).cell((row[col],)))))
    return out


def conj(items):
    return V.CTX.c.andl([l for _, l in items])


def failing(circ, items, model):
    """labels of the invariant conjuncts that are false under a solver model"""
    vals = circ.evaluate([l for _, l in items], model)
    return [lab for (lab, _), v in zip(items, vals) if not v]
