"""Library semantics: the std / eqlog-runtime container methods used by the interpreted code."""
from terms import T, F
import values as V
from values import (BoolV, SInt, OPQ, UNDEF, UNIT, OptV, EnumV, StructV, ClosureV, NativeFn, LazyV, RefV, IterV,
                    VecL, VecA, MapV, SetV, Mux, Unsupported, mkbool, lit, merge, is_int, int_eq, int_lt, int_bin,
                    int_ite, cases_of, mkmux, TRUE, FALSE, NONE)


def ADD(x, y):
    return x + y


def SUBSAT(x, y):
    return max(x - y, 0)


ADD.bvkind = "add"
SUBSAT.bvkind = "subsat"


class EntryV:
    def __init__(self, m, key):
        self.m, self.key = m, key


def call_method(I, recv, name, argexprs, scope, frame, g, hint, e):
    c = I.c

    def args():
        return [I.eval(a, scope, frame, g) for a in argexprs]

    def arg(i=0):
        return I.deref(I.eval(argexprs[i], scope, frame, g))

    # ---------------- strings (C11 profile)
    import strprof
    if strprof.is_str(recv):
        return strprof.str_method(I, strprof.as_str(recv), name, argexprs, scope, frame, g, hint, e)
    if isinstance(recv, tuple) and len(recv) == 2 and recv[0] == "numstr":
        if name == "len":
            return strprof.digits(recv[1])
        raise Unsupported("method %s on a formatted number" % name)
    if isinstance(recv, IterV) and name in ("scan", "enumerate", "skip_while", "take_while", "last", "max", "map_while"):
        r = strprof.iter_extra(I, recv, name, argexprs, scope, frame, g, hint, e)
        if r is not NotImplemented:
            return r
    # ---------------- universal
    if name in ("into", "deref_mut", "deref", "as_ref", "as_mut", "borrow", "borrow_mut") and not argexprs:
        return recv
    if name in ("copied", "cloned", "into_iter", "iter", "iter_mut") and isinstance(recv, IterV):
        return recv
    if name == "clone" and not argexprs:
        return V.clone(recv)

    # ---------------- integers
    if is_int(recv) or recv is OPQ:
        if name in ("saturating_add", "saturating_sub", "wrapping_add"):
            a = arg()
            if recv is OPQ or a is OPQ:
                return OPQ
            if name == "saturating_sub":
                return int_bin(SUBSAT, recv, a)
            return int_bin(ADD, recv, a)
        if name in ("try_into",):
            return OptV(T, recv)
        if name == "to_string":
            return ("numstr", recv)
        if name == "cmp":
            a = arg()
            lt, eq = int_lt(recv, a), int_eq(recv, a)
            return EnumV("Ordering", {"Less": (lt, ()), "Equal": (eq, ()), "Greater": (c.and2(-lt, -eq), ())})
        if name == "unwrap":
            return recv
        raise Unsupported("integer method " + name)

    # ---------------- Option
    if isinstance(recv, OptV):
        if name in ("unwrap", "expect"):
            I.event(c.and2(g, -recv.some), "panic", "unwrap/expect on None (line %s)" % e.get("line"))
            return recv.val
        if name == "is_some":
            return mkbool(recv.some)
        if name == "is_none":
            return mkbool(-recv.some)
        if name in ("is_some_and", "is_none_or"):
            f = arg()
            gs = c.and2(g, recv.some)
            r = lit(I.deref(I.call_closure(f, gs, [recv.val]))) if gs != F else F
            return mkbool(c.and2(recv.some, r) if name == "is_some_and" else c.or2(-recv.some, r))
        if name == "unwrap_or_else":
            f = arg()
            gn = c.and2(g, -recv.some)
            if gn == F:
                return recv.val
            d = I.call_closure(f, gn, [])
            return merge(recv.some, recv.val, d)
        if name == "unwrap_or":
            return merge(recv.some, recv.val, arg())
        if name == "unwrap_or_default":
            v = recv.val
            if isinstance(v, (VecL, VecA)) or v is UNDEF:
                d = VecL()
            elif is_int(v):
                d = 0
            else:
                raise Unsupported("unwrap_or_default of %r" % (v,))
            if recv.some == T:
                return v
            if recv.some == F or v is UNDEF:
                return d
            return merge(recv.some, v, d)
        if name == "or_else":
            f = arg()
            gn = c.and2(g, -recv.some)
            if gn == F:
                return recv
            d = I.deref(I.call_closure(f, gn, []))
            return OptV(c.or2(recv.some, d.some), merge(recv.some, recv.val, d.val))
        if name == "or":
            d = arg()
            return OptV(c.or2(recv.some, d.some), merge(recv.some, recv.val, d.val))
        if name == "map":
            f = arg()
            gs = c.and2(g, recv.some)
            if gs == F:
                return NONE
            return OptV(recv.some, I.call_closure(f, gs, [recv.val]))
        if name == "and_then":
            f = arg()
            gs = c.and2(g, recv.some)
            if gs == F:
                return NONE
            r = I.deref(I.call_closure(f, gs, [recv.val]))
            return OptV(c.and2(recv.some, r.some), r.val)
        if name == "map_or":
            a = args()
            d, f = I.deref(a[0]), I.deref(a[1])
            gs = c.and2(g, recv.some)
            if gs == F:
                return d
            return merge(recv.some, I.call_closure(f, gs, [recv.val]), d)
        if name in ("iter", "into_iter"):
            return IterV([(recv.some, recv.val)])
        if name in ("copied", "cloned", "as_ref", "as_mut"):
            return recv
        if name == "ok":
            return recv
        raise Unsupported("Option method " + name)

    # ---------------- iterators
    if isinstance(recv, IterV):
        if name == "chain":
            other = I.to_iter(arg(), g)
            return IterV(recv.items + other.items)
        if name == "map":
            f = arg()
            return IterV([(gi, I.call_closure(f, c.and2(g, gi), [x])) for gi, x in recv.items])
        if name == "filter_map":
            f = arg()
            out = []
            for gi, x in recv.items:
                r = I.deref(I.call_closure(f, c.and2(g, gi), [x]))
                out.append((c.and2(gi, r.some), r.val))
            return IterV(out)
        if name == "filter":
            f = arg()
            out = []
            for gi, x in recv.items:
                r = lit(I.deref(I.call_closure(f, c.and2(g, gi), [x])))
                out.append((c.and2(gi, r), x))
            return IterV(out)
        if name in ("flatten", "flat_map"):
            f = arg() if name == "flat_map" else None
            out = []
            for gi, x in recv.items:
                gg = c.and2(g, gi)
                if f is not None:
                    x = I.call_closure(f, gg, [x])
                for gj, y in I.to_iter(x, gg).items:
                    out.append((c.and2(gi, gj), y))
            return IterV(out)
        if name == "next":
            seen = F
            some = F
            val = UNDEF
            for gi, x in recv.items:
                take = c.and2(gi, -seen)
                val = merge(take, x, val)
                seen = c.or2(seen, gi)
            return OptV(seen, val)
        if name == "count":
            return V.count_lits([gi for gi, _ in recv.items])
        if name == "collect":
            return collect(I, recv, hint, g)
        if name == "enumerate":
            # positions are symbolic in general: only supported for unguarded items
            if all(gi == T for gi, _ in recv.items):
                return IterV([(T, (i, x)) for i, (gi, x) in enumerate(recv.items)])
            raise Unsupported("enumerate over a guarded iterator")
        if name == "any":
            f = arg()
            r = F
            for gi, x in recv.items:
                r = c.or2(r, c.and2(gi, lit(I.deref(I.call_closure(f, c.and_(g, gi, -r), [x])))))
            return mkbool(r)
        if name == "all":
            f = arg()
            r = T
            for gi, x in recv.items:
                r = c.and2(r, c.or2(-gi, lit(I.deref(I.call_closure(f, c.and_(g, gi, r), [x])))))
            return mkbool(r)
        raise Unsupported("iterator method " + name)

    # ---------------- arrays / tuples
    if isinstance(recv, tuple):
        if name in ("into_iter", "iter"):
            return IterV([(T, x) for x in recv])
        if name == "len":
            return len(recv)
        raise Unsupported("array method " + name)

    # ---------------- Vec
    if isinstance(recv, (VecL, VecA)):
        if name == "push" or name == "push_back":
            val = arg()
            if I.on_push is not None:
                I.on_push(recv, g, val, scope, e)
            recv.push(g, val)
            return UNIT
        if name in ("iter", "into_iter", "iter_mut"):
            return IterV(I.vec_items(recv, g) if isinstance(recv, VecL) else recv.items())
        if name == "drain":
            it = IterV(I.vec_items(recv, g) if isinstance(recv, VecL) else recv.items())
            args()
            recv.clear(g)
            return it
        if name == "clear":
            recv.clear(g)
            return UNIT
        if name == "is_empty":
            return mkbool(recv.is_empty())
        if name == "len":
            return recv.length()
        if name == "extend":
            for gi, x in I.to_iter(arg(), g).items:
                gg = c.and2(g, gi)
                if gg != F:
                    recv.push(gg, x)
            return UNIT
        if name in ("to_vec", "to_owned") and isinstance(recv, VecA):
            return recv.clone()
        if name == "join" and isinstance(recv, VecL):
            sep = arg()
            if not (isinstance(sep, tuple) and sep[0] == "str"):
                raise Unsupported("join with a non-literal separator")
            return strprof.join(I, g, I.vec_items(recv, g), sep[1], getattr(I, "str_cap", 8))
        if name == "pop_front" and isinstance(recv, VecL):
            # queue semantics: first live entry is removed
            seen = F
            val = UNDEF
            new = []
            for gi, x in recv.items():
                take = c.and2(gi, -seen)
                val = merge(take, x, val)
                new.append((c.and2(gi, -c.and2(g, take)), x))
                seen = c.or2(seen, gi)
            recv._mut()
            recv.e = [(gi, x) for gi, x in new if gi != F]
            return OptV(seen, val)
        raise Unsupported("Vec method " + name)

    # ---------------- PrefixTree
    if isinstance(recv, SetV):
        if name == "iter_restrictions":
            return IterV(recv.restrictions())
        if name == "iter":
            return IterV(recv.items())
        if name == "get":
            return recv.get(g, arg())
        if name == "is_empty":
            return mkbool(recv.is_empty())
        if name == "contains":
            return mkbool(recv.contains(g, [I.deref(x) for x in arg()]))
        if name == "insert":
            return mkbool(recv.insert(g, [I.deref(x) for x in arg()]))
        if name == "remove":
            return mkbool(recv.remove(g, [I.deref(x) for x in arg()]))
        if name == "clear":
            recv.clear(g)
            return UNIT
        if name == "union":
            return recv.union(I.deref(arg()))
        if name == "difference":
            return recv.difference(I.deref(arg()))
        if name == "mapped":
            return recv.mapped([I.deref(x) for x in args()])
        if name == "insert_restriction":
            a = args()
            recv.insert_restriction(g, I.deref(a[0]), I.deref(a[1]))
            return UNIT
        if name == "remove_restriction":
            a = args()
            recv.remove_restriction(g, I.deref(a[0]), I.deref(a[1]))
            return UNIT
        raise Unsupported("PrefixTree method " + name)

    # ---------------- WBTreeSet (by contract)
    if isinstance(recv, V.KeySet):
        if name == "insert":
            k = arg()
            was = recv.contains_key(g, k)
            recv.insert(g, k, UNIT)
            return mkbool(-was)
        if name == "contains":
            return mkbool(recv.contains_key(g, arg()))
        if name == "remove":
            k = arg()
            was = recv.contains_key(g, k)
            recv.remove(g, k)
            return mkbool(was)
        if name == "iter":
            return IterV([(p, k) for k, p in enumerate(recv.p)])
        if name == "is_empty":
            return mkbool(recv.is_empty())
        if name == "len":
            return recv.length()
        if name == "clear":
            recv.clear(g)
            return UNIT
        if name == "union":
            return recv.union_with(I.deref(arg()), None)
        if name == "difference":
            return recv.difference_with(I.deref(arg()), lambda gg, k, a, b2: NONE)
        raise Unsupported("WBTreeSet method " + name)

    # ---------------- maps
    if isinstance(recv, MapV):
        if name == "union":
            a = args()
            other, fn = I.deref(a[0]), I.deref(a[1])
            return recv.union_with(other, lambda gg, k, x, y: I.call_closure(fn, c.and2(g, gg), [k, x, y]))
        if name == "difference":
            a = args()
            other, fn = I.deref(a[0]), I.deref(a[1])
            return recv.difference_with(other, lambda gg, k, x, y: I.deref(I.call_closure(fn, c.and2(g, gg), [k, x, y])))
        if name == "iter_mut":
            return IterV([(recv.p[k], (k, recv.slot_ref(k))) for k in range(recv.U)])
        if name == "get":
            return recv.get(g, arg())
        if name == "get_mut":
            return recv.get_mut(g, arg())
        if name == "contains_key":
            return mkbool(recv.contains_key(g, arg()))
        if name == "remove":
            return recv.remove(g, arg())
        if name == "insert":
            a = args()
            return recv.insert(g, I.deref(a[0]), a[1])
        if name == "entry":
            k = arg()
            occ = recv.contains_key(g, k)
            return EnumV("Entry", {"Occupied": (occ, (EntryV(recv, k),)), "Vacant": (-occ, (EntryV(recv, k),))})
        if name in ("iter", "into_iter"):
            return IterV(recv.items())
        if name in ("values", "into_values"):
            return IterV([(gi, kv[1]) for gi, kv in recv.items()])
        if name in ("keys", "into_keys"):
            return IterV([(gi, kv[0]) for gi, kv in recv.items()])
        if name == "is_empty":
            return mkbool(recv.is_empty())
        if name == "len":
            return recv.length()
        if name == "clear":
            recv.clear(g)
            return UNIT
        raise Unsupported("map method " + name)
    if isinstance(recv, EnumV) and recv.ty == "Result":
        ok = recv.alts["Ok"][0] if "Ok" in recv.alts else F
        if name in ("expect", "unwrap"):
            I.event(c.and2(g, -ok), "panic", "unwrap/expect on Err (line %s)" % e.get("line"))
            if "Ok" not in recv.alts:
                return UNDEF
            return recv.alts["Ok"][1][0]
        if name == "is_ok":
            return mkbool(ok)
        if name == "is_err":
            return mkbool(-ok)
        if name == "ok":
            return OptV(ok, recv.alts["Ok"][1][0] if "Ok" in recv.alts else UNDEF)
        raise Unsupported("Result method " + name)
    if isinstance(recv, EnumV) and recv.ty == "Entry":
        ent = recv.alts["Occupied"][1][0]
        if name == "or_default":
            return ent.m.or_default(g, ent.key)
        if name in ("or_insert_with", "or_insert"):
            vac = c.and2(g, recv.alts["Vacant"][0])
            if vac != F:
                d = I.call_closure(arg(), vac, []) if name == "or_insert_with" else arg()
                ent.m.insert(vac, ent.key, d)
            elif argexprs:
                pass
            return ent.m.get_mut(g, ent.key).val
        raise Unsupported("Entry method " + name)
    if isinstance(recv, EntryV):
        # OccupiedEntry / VacantEntry
        if name in ("get_mut", "into_mut", "get"):
            return recv.m.get_mut(g, recv.key).val
        if name == "remove":
            return recv.m.remove(g, recv.key).val
        if name == "insert":
            recv.m.insert(g, recv.key, arg())
            return recv.m.get_mut(g, recv.key).val
        if name == "key":
            return recv.key
        raise Unsupported("Entry method " + name)

    if isinstance(recv, BoolV):
        raise Unsupported("bool method " + name)
    raise Unsupported("method %s on %r (line %s)" % (name, recv, e.get("line")))


def collect(I, it, hint, g):
    from interp import ty_name, ty_args
    c = I.c
    t = I.resolve_ty(hint)
    n = ty_name(t)
    if n in ("Vec", "VecDeque"):
        return VecL([(gi, x) for gi, x in it.items])
    if n == "BTreeMap":
        m = I.default_for(t)
        for gi, kv in it.items:
            k, v = kv
            m.insert(c.and2(g, gi), I.deref(k), I.deref(v))
        return m
    raise Unsupported("collect into %r" % (n,))
