"""Predicated symbolic executor over the JSON AST produced by tools/rsdump.

One symbolic state, every statement executed under a path guard (a circuit literal); assignments
become ite-merges, `return` / `continue` / `break` / `?` update liveness flags of the frame; loops
over containers are unrolled over the finite universe, `loop` / `while` to a stated bound with a
bound-exceeded event.  Reachable panics (unwrap on None, failed assert!, index out of bounds) are
recorded as events with their guard.  An AST node outside the supported subset raises
Unsupported (the run is inconclusive, exit 2) -- nothing is ever skipped silently.
"""
import re
from terms import T, F
import values as V
from values import (BoolV, SInt, OPQ, UNDEF, UNIT, OptV, EnumV, StructV, ClosureV, NativeFn, LazyV, RefV, IterV,
                    VecL, VecA, MapV, SetV, Mux, Unsupported, mkbool, lit, merge, is_int, int_eq, int_lt, int_bin,
                    int_ite, cases_of, mkmux, TRUE, FALSE, NONE)

INT_TYPES = {"u32", "usize", "u64", "i32", "i64", "u8", "u16", "isize"}


class Scope:
    __slots__ = ("vars", "parent")

    def __init__(self, parent=None):
        self.vars = {}
        self.parent = parent

    def lookup(self, name):
        s = self
        while s is not None:
            if name in s.vars:
                return s
            s = s.parent
        return None


class Frame:
    def __init__(self, fname, ret_ty=None):
        self.fname = fname
        self.returned = F
        self.retval = UNDEF
        self.ret_ty = ret_ty
        self.loops = []      # stack of dicts {'brk': lit, 'cont': lit}

    def dead(self, c):
        d = self.returned
        for l in self.loops:
            d = c.or2(d, c.or2(l["brk"], l["cont"]))
        return d


class VarPlace:
    def __init__(self, scope, name):
        self.scope, self.name = scope, name

    def get(self):
        return self.scope.vars[self.name]

    def set(self, g, v):
        self.scope.vars[self.name] = merge(g, v, self.scope.vars[self.name])


class FieldPlace:
    def __init__(self, obj, name):
        self.obj, self.name = obj, name

    def get(self):
        return self.obj.f[self.name]

    def set(self, g, v):
        if self.obj.frozen:
            raise Unsupported("assignment to a field of a merged (snapshot) struct")
        new = merge(g, v, self.obj.f[self.name])
        if isinstance(new, V.SetV) and new is not v:
            V.unfreeze(new)        # a freshly merged PrefixTree is owned by the field alone (Rust moves the value in)
        self.obj.f[self.name] = new


class SlotPlace:
    def __init__(self, vec, idx, g):
        self.vec, self.idx, self.g = vec, idx, g

    def get(self):
        return self.vec.get(self.g, self.idx)

    def set(self, g, v):
        self.vec.set(g, self.idx, v)


class MuxPlace:
    def __init__(self, alts):
        self.alts = alts

    def get(self):
        r = UNDEF
        for g, p in self.alts:
            r = merge(g, p.get(), r)
        return r

    def set(self, g, v):
        c = V.CTX.c
        for ga, p in self.alts:
            p.set(c.and2(g, ga), v)


class Program:
    """tables built from rsdump output"""

    def __init__(self):
        self.fns = {}        # name -> fn item (free functions, any module)
        self.methods = {}    # (type, name) -> fn item
        self.structs = {}    # name -> fields decl
        self.enums = {}      # name -> variants
        self.consts = {}
        self.newtypes = set()   # tuple structs wrapping a single u32: erased to plain integers
        self.aliases = {}
        self.links = {}      # extern fn name -> link_name
        self.fn_file = {}

    def load(self, files):
        for path, items in files.items():
            self._items(items, path)

    def _items(self, items, path):
        for it in items:
            k = it["k"]
            if k == "Fn":
                name = it["sig"]["name"]
                if name in self.fns and path != self.fn_file.get(name):
                    # component build: the same rule function appears in the component file; keep both
                    self.fns.setdefault("__dups__", []).append((path, it))
                self.fns[name] = it
                self.fn_file[name] = path
            elif k == "Struct":
                self.structs[it["name"]] = it["fields"]
                f = it["fields"]
                if f["k"] == "Unnamed" and len(f["fields"]) == 1 and f["fields"][0]["ty"].get("src") == "u32":
                    self.newtypes.add(it["name"])
            elif k == "Enum":
                self.enums[it["name"]] = it["variants"]
            elif k == "Impl":
                if it["trait"] is not None:
                    continue
                tn = ty_name(it["self_ty"])
                for ii in it["items"]:
                    if ii["k"] == "Fn":
                        ii["_self_ty"] = tn
                        self.methods[(tn, ii["sig"]["name"])] = ii
            elif k == "Mod":
                if it["items"] is not None and not any("cfg (test)" in a or "cfg(test)" in a for a in it["attrs"]):
                    self._items(it["items"], path)
            elif k == "Const":
                self.consts[it["name"]] = it["expr"]
            elif k == "TypeAlias":
                self.aliases[it["name"]] = it["ty"]
            elif k == "ForeignMod":
                for fi in it["items"]:
                    if fi["k"] == "Unsupported":
                        # syn 2 does not parse `safe fn` in extern blocks: recover name and link_name from the tokens
                        m = re.search(r'link_name\s*=\s*"(\w+)"\s*\]\s*(?:safe\s+)?fn\s+(\w+)', fi["src"])
                        if m:
                            self.links[m.group(2)] = m.group(1)
                        continue
                    if fi["k"] == "Fn":
                        for a in fi["attrs"]:
                            m = re.match(r'link_name\s*=\s*"(\w+)"', a)
                            if m:
                                self.links[fi["sig"]["name"]] = m.group(1)
            elif k in ("Use", "MacroItem", "Static", "Trait"):
                pass
            elif k == "Unsupported":
                pass   # only an error if it is ever executed


def ty_name(t):
    if t is None:
        return None
    if t["k"] == "Path":
        return t["segs"][-1]["name"]
    if t["k"] == "Ref":
        return ty_name(t["elem"])
    return None


def ty_args(t):
    if t is not None and t["k"] == "Path":
        return t["segs"][-1]["args"]
    return []


class Interp:
    def __init__(self, prog, ctx, loop_bound=8):
        self.p = prog
        self.ctx = ctx
        self.c = ctx.c
        self.loop_bound = loop_bound
        self.depth = 0
        self.on_push = None    # hook(recv, guard, value, scope, expr) called at every Vec::push
        self.loop_bounds = {}  # function name -> unrolling bound overriding loop_bound
        self.natives = {}     # name -> python callable(interp, g, args) for stubbing free functions
        self.trace = None

    # ------------------------------------------------------------------ types
    def resolve_ty(self, t):
        while t is not None and t["k"] == "Path" and len(t["segs"]) == 1 and t["segs"][0]["name"] in self.p.aliases:
            t = self.p.aliases[t["segs"][0]["name"]]
        if t is not None and t["k"] == "Ref":
            return self.resolve_ty(t["elem"])
        return t

    def default_for(self, t):
        """the value of `X::new()` / Default for a declared type"""
        t = self.resolve_ty(t)
        n = ty_name(t)
        if n is None:
            raise Unsupported("default for type %r" % (t,))
        m = re.match(r"PrefixTree(\d)$", n)
        if m:
            return SetV(int(m.group(1)))
        if n == "Vec" or n == "VecDeque":
            a = ty_args(t)
            en = ty_name(self.resolve_ty(a[0])) if a else None
            if en in INT_TYPES or en == "T":
                return VecA()
            return VecL()
        if n == "BTreeMap":
            a = ty_args(t)
            vt = a[1]
            return MapV(mkdefault=lambda: self.default_for(vt), vty=vt)
        raise Unsupported("default for type " + n)

    # ------------------------------------------------------------------ helpers
    def event(self, g, kind, msg):
        self.ctx.event(g, kind, msg)

    def deref(self, v):
        """strip references to scalar places and force lazies"""
        while True:
            if isinstance(v, RefV):
                v = v.place.get()
            elif isinstance(v, LazyV):
                v = self.force(v)
            else:
                return v

    def force(self, lz):
        if not lz.forced:
            lz.value = self.call_closure(lz.closure, T, [])
            lz.forced = True
        return lz.value

    def coerce(self, v, t):
        """newtypes are erased; nothing to do beyond dereferencing Copy scalars"""
        return v

    # ------------------------------------------------------------------ calls
    def call_fn(self, item, g, args, self_val=None):
        sig = item["sig"]
        if "body" not in item:
            raise Unsupported("call of a function without body: " + sig["name"])
        self.depth += 1
        if self.depth > 60:
            raise Unsupported("recursion too deep in " + sig["name"])
        scope = Scope()
        frame = Frame(sig["name"], sig["output"])
        frame.self_ty = item.get("_self_ty")
        scope.vars["Self"] = ("selfty", frame.self_ty)
        ai = 0
        for inp in sig["inputs"]:
            if inp["k"] == "SelfArg":
                scope.vars["self"] = self_val
            else:
                if ai >= len(args):
                    raise Unsupported("too few arguments for " + sig["name"])
                self.bind(inp["pat"], args[ai], scope, g, irrefutable=True)
                ai += 1
        r = self.exec_block(item["body"], scope, frame, g)
        self.depth -= 1
        if frame.returned != F:
            # a body that ends in a diverging expression (`loop`) has no fall-through value
            r = frame.retval if (r is UNDEF or (r == UNIT and frame.retval != UNIT)) else merge(frame.returned, frame.retval, r)
        return r

    def call_closure(self, clo, g, args):
        if isinstance(clo, NativeFn):
            return clo.fn(self, g, args)
        if isinstance(clo, tuple) and len(clo) == 2 and clo[0] == "fnref":
            name = clo[1]
            if "::" in name:
                ty, fn = name.split("::", 1)
                if (ty, fn) in self.p.methods:
                    item = self.p.methods[(ty, fn)]
                    if item["sig"]["inputs"] and item["sig"]["inputs"][0]["k"] == "SelfArg":
                        return self.call_fn(item, g, args[1:], self_val=args[0])
                    return self.call_fn(item, g, args)
                if name in self.natives:
                    return self.natives[name](self, g, args)
            elif name in self.p.fns:
                return self.call_fn(self.p.fns[name], g, args)
            raise Unsupported("call through function path " + name)
        if not isinstance(clo, ClosureV):
            raise Unsupported("call of non-closure %r" % (clo,))
        scope = Scope(clo.scope)
        frame = Frame("<closure>")
        if len(args) != len(clo.params):
            # a single tuple parameter pattern `|(a, b)|` receives one tuple argument
            raise Unsupported("closure arity mismatch")
        for p, a in zip(clo.params, args):
            self.bind(p, a, scope, g, irrefutable=True)
        r = self.eval(clo.body, scope, frame, g)
        if frame.returned != F:
            r = merge(frame.returned, frame.retval, r)
        return r

    # ------------------------------------------------------------------ patterns
    def bind(self, p, v, scope, g, irrefutable=False):
        """binds pattern variables in scope; returns the literal 'pattern matches'"""
        k = p["k"]
        if v is UNDEF and k != "Ident":
            # value of a dead path (e.g. after `?` returned): names are bound to garbage, nothing matches
            for nm in pat_names_all(p):
                scope.vars[nm] = UNDEF
            return F
        if k == "Ident" and p["name"] == "None":
            # syn cannot tell a binding from a unit variant: `None` in pattern position is Option::None
            v = self.deref(v)
            if not isinstance(v, OptV):
                raise Unsupported("None pattern against %r" % (v,))
            return -v.some
        if k == "Ident" and p["name"][:1].isupper() and isinstance(self.deref(v), EnumV) and p["name"] in self.deref(v).alts:
            return self.deref(v).alts[p["name"]][0]
        if k == "Ident":
            if p["sub"] is not None:
                raise Unsupported("@ pattern")
            if p["name"] in ("None",) and False:
                pass
            scope.vars[p["name"]] = v if p["by_ref"] is False or True else v
            return T
        if k == "Wild":
            return T
        if k == "Type":
            return self.bind(p["pat"], v, scope, g, irrefutable)
        if k == "Ref":
            return self.bind(p["pat"], self.deref(v), scope, g, irrefutable)
        if k in ("Tuple", "Slice"):
            v = self.deref(v)
            if not isinstance(v, tuple):
                if len(p["elems"]) == 1 and k == "Tuple":
                    return self.bind(p["elems"][0], v, scope, g, irrefutable)
                raise Unsupported("tuple pattern against %r" % (v,))
            if len(v) != len(p["elems"]):
                raise Unsupported("tuple pattern arity mismatch")
            m = T
            for pe, ve in zip(p["elems"], v):
                m = self.c.and2(m, self.bind(pe, ve, scope, g, irrefutable))
            return m
        if k == "TupleStruct":
            name = p["path"][-1]["name"]
            v = self.deref(v)
            if name in self.p.newtypes:
                return self.bind(p["elems"][0], v, scope, g, irrefutable)
            if name == "Some":
                if not isinstance(v, OptV):
                    raise Unsupported("Some(..) pattern against %r" % (v,))
                m = self.bind(p["elems"][0], v.val, scope, g, irrefutable)
                return self.c.and2(v.some, m)
            if name in ("Ok", "Err") or len(p["path"]) >= 2:
                if isinstance(v, EnumV):
                    ga, payload = v.alts.get(name, (F, UNDEF))
                    if ga == F:
                        return F
                    m = ga
                    for pe, ve in zip(p["elems"], payload):
                        m = self.c.and2(m, self.bind(pe, ve, scope, g, irrefutable))
                    return m
                raise Unsupported("enum pattern %s against %r" % (name, v))
            if name in self.p.structs:
                # other tuple structs: represented as tuples
                if isinstance(v, StructV):
                    vals = [v.f[i] for i in range(len(p["elems"]))]
                else:
                    vals = v
                m = T
                for pe, ve in zip(p["elems"], vals):
                    m = self.c.and2(m, self.bind(pe, ve, scope, g, irrefutable))
                return m
            raise Unsupported("tuple-struct pattern " + name)
        if k == "Path":
            name = p["path"][-1]["name"]
            v = self.deref(v)
            if name == "None":
                if not isinstance(v, OptV):
                    raise Unsupported("None pattern against %r" % (v,))
                return -v.some
            if isinstance(v, EnumV):
                return v.alts.get(name, (F, UNDEF))[0]
            raise Unsupported("path pattern " + name)
        if k == "Lit":
            v = self.deref(v)
            lv = self.lit_value(p["lit"])
            if isinstance(lv, BoolV):
                return self.c.iff(lit(v), lv.l)
            return int_eq(v, lv)
        if k == "Struct":
            v = self.deref(v)
            if not isinstance(v, StructV):
                raise Unsupported("struct pattern against %r" % (v,))
            m = T
            for f in p["fields"]:
                m = self.c.and2(m, self.bind(f["pat"], v.f[f["member"]], scope, g, irrefutable))
            return m
        raise Unsupported("pattern kind " + k)

    def lit_value(self, l):
        if l["k"] == "Int":
            return int(l["v"])
        if l["k"] == "Bool":
            return TRUE if l["v"] else FALSE
        if l["k"] == "Str":
            return ("str", l["v"])
        if l["k"] == "Char" and len(l["v"].encode("utf-8")) == 1:
            return ord(l["v"])
        if l["k"] == "Byte":
            return int(l["v"])
        raise Unsupported("literal " + l["k"])

    # ------------------------------------------------------------------ statements
    def exec_block(self, stmts, scope, frame, g):
        scope = Scope(scope)
        r = UNIT
        n = len(stmts)
        for i, s in enumerate(stmts):
            eg = self.c.and2(g, -frame.dead(self.c))
            if eg == F:
                return UNDEF if r is UNIT else r
            k = s["k"]
            if k == "Let":
                if s["init"] is None:
                    for nm in pat_names(s["pat"]):
                        scope.vars[nm] = UNDEF
                    continue
                hint = s["pat"]["ty"] if s["pat"]["k"] == "Type" else None
                v = self.eval(s["init"], scope, frame, eg, hint)
                if s["else"] is not None:
                    m = self.bind(s["pat"], v, scope, eg)
                    self.eval(s["else"], scope, frame, self.c.and2(eg, -m))
                else:
                    self.bind(s["pat"], v, scope, eg, irrefutable=True)
                r = UNIT
            elif k == "Expr":
                v = self.eval(s["expr"], scope, frame, eg)
                r = v if (not s["semi"] and i == n - 1) else UNIT
            elif k == "Item":
                it = s["item"]
                if it["k"] in ("Static", "Const"):
                    scope.vars[it["name"]] = self.eval(it["expr"], scope, frame, eg, it["ty"])
                r = UNIT
            else:
                raise Unsupported("statement " + k)
        return r

    # ------------------------------------------------------------------ places
    def place(self, e, scope, frame, g):
        k = e["k"]
        if k == "Path" and len(e["segs"]) == 1:
            name = e["segs"][0]["name"]
            s = scope.lookup(name)
            if s is None:
                raise Unsupported("assignment to unknown variable " + name)
            v = s.vars[name]
            if isinstance(v, RefV):
                return VarPlace(s, name)   # rebinding a reference variable
            return VarPlace(s, name)
        if k == "Field":
            base = self.deref(self.eval(e["base"], scope, frame, g))
            if isinstance(base, Mux):
                return MuxPlace([(ga, FieldPlace(o, e["member"])) for ga, o in base.alts])
            if isinstance(base, StructV):
                return FieldPlace(base, e["member"])
            if is_int(base) and e["member"] == 0:
                raise Unsupported("assignment through newtype field")
            raise Unsupported("field place on %r" % (base,))
        if k == "Index":
            base = self.deref(self.eval(e["base"], scope, frame, g))
            idx = self.deref(self.eval(e["index"], scope, frame, g))
            if isinstance(base, VecA):
                return SlotPlace(base, idx, g)
            raise Unsupported("index place on %r" % (base,))
        if k == "Unary" and e["op"] == "*":
            v = self.eval(e["expr"], scope, frame, g)
            if isinstance(v, LazyV):
                v = self.force(v)
            if isinstance(v, RefV):
                return v.place
            if isinstance(v, Mux):
                return MuxPlace([(ga, o.place if isinstance(o, RefV) else _obj_place(o)) for ga, o in v.alts])
            if V.is_object(v):
                return _obj_place(v)
            raise Unsupported("deref place of %r" % (v,))
        raise Unsupported("place expression " + k)

    # ------------------------------------------------------------------ expressions
    def eval(self, e, scope, frame, g, hint=None):
        k = e["k"]
        m = getattr(self, "e_" + k, None)
        if m is None:
            raise Unsupported("expression kind %s at line %s: %s" % (k, e.get("line"), str(e)[:200]))
        return m(e, scope, frame, g, hint)

    def e_Lit(self, e, scope, frame, g, hint):
        return self.lit_value(e["lit"])

    def e_Path(self, e, scope, frame, g, hint):
        segs = e["segs"]
        name = segs[-1]["name"]
        if len(segs) == 1:
            s = scope.lookup(name)
            if s is not None:
                return s.vars[name]
            if name in self.p.consts:
                if name.endswith("_WEIGHT") and self.ctx.opaque_weights:
                    return OPQ
                v = self.eval(self.p.consts[name], Scope(), frame, g)
                if name.endswith("_WEIGHT") and self.ctx.bv_weights:
                    return V.bv_const(v)
                return v
            if name == "None":
                return NONE
            if name in self.p.fns or name in self.p.links or name in self.natives:
                return ("fnref", name)
            raise Unsupported("unknown name " + name)
        # Type::Variant / Type::CONST / function path
        tyname = segs[-2]["name"]
        if tyname in self.p.enums:
            return EnumV(tyname, {name: (T, ())})
        if tyname == "PhantomData" or name == "PhantomData":
            return UNIT
        if tyname in ("u32", "usize") and name == "MAX":
            return (1 << 32) - 1 if tyname == "u32" else (1 << 64) - 1
        return ("fnref", tyname + "::" + name)

    def e_Paren(self, e, scope, frame, g, hint):
        return self.eval(e["expr"], scope, frame, g, hint)

    def e_Tuple(self, e, scope, frame, g, hint):
        return tuple(self.eval(x, scope, frame, g) for x in e["elems"])

    def e_Array(self, e, scope, frame, g, hint):
        return tuple(self.deref(self.eval(x, scope, frame, g)) for x in e["elems"])

    def e_Reference(self, e, scope, frame, g, hint):
        inner = e["expr"]
        v = self.eval(inner, scope, frame, g, hint)
        if e["mut"] and not V.is_object(v) and not isinstance(v, (Mux, RefV, LazyV)) and inner["k"] in ("Index", "Field", "Path"):
            if inner["k"] == "Path" and scope.lookup(inner["segs"][0]["name"]) is None:
                return v
            return RefV(self.place(inner, scope, frame, g))
        return v

    def e_Unary(self, e, scope, frame, g, hint):
        op = e["op"]
        v = self.eval(e["expr"], scope, frame, g)
        if op == "*":
            v = self.deref(v)
            if isinstance(v, Mux):
                return MuxPlace([(ga, o.place if isinstance(o, RefV) else _obj_place(o)) for ga, o in v.alts]).get()
            return v
        v = self.deref(v)
        if op == "!":
            return mkbool(-lit(v))
        if op == "-":
            raise Unsupported("unary minus")
        raise Unsupported("unary " + op)

    def e_Binary(self, e, scope, frame, g, hint):
        op = e["op"]
        c = self.c
        if op in ("&&", "||"):
            l = lit(self.deref(self.eval(e["left"], scope, frame, g)))
            if op == "&&":
                if l == F:
                    return FALSE
                r = lit(self.deref(self.eval(e["right"], scope, frame, c.and2(g, l))))
                return mkbool(c.and2(l, r))
            if l == T:
                return TRUE
            r = lit(self.deref(self.eval(e["right"], scope, frame, c.and2(g, -l))))
            return mkbool(c.or2(l, r))
        if op in ("+=", "-=", "*="):
            pl = self.place(e["left"], scope, frame, g)
            cur = self.deref(pl.get())
            r = self.deref(self.eval(e["right"], scope, frame, g))
            nv = self.arith(op[0], cur, r, g)
            pl.set(g, nv)
            return UNIT
        if op in ("|=", "&=", "^="):
            pl = self.place(e["left"], scope, frame, g)
            cur = self.deref(pl.get())
            r = self.deref(self.eval(e["right"], scope, frame, g))
            if not (isinstance(cur, BoolV) and isinstance(r, BoolV)):
                raise Unsupported("compound assignment %s on non-boolean operands" % op)
            nl = c.or2(cur.l, r.l) if op == "|=" else c.and2(cur.l, r.l) if op == "&=" else -c.iff(cur.l, r.l)
            pl.set(g, mkbool(nl))
            return UNIT
        a = self.deref(self.eval(e["left"], scope, frame, g))
        b = self.deref(self.eval(e["right"], scope, frame, g))
        if op in ("==", "!="):
            r = self.equal(a, b)
            return mkbool(r if op == "==" else -r)
        if op in ("<", "<=", ">", ">="):
            if op == "<":
                r = int_lt(a, b)
            elif op == ">":
                r = int_lt(b, a)
            elif op == "<=":
                r = -int_lt(b, a)
            else:
                r = -int_lt(a, b)
            return mkbool(r)
        if op in ("+", "-", "*"):
            return self.arith(op, a, b, g)
        if op in ("|", "&", "^") and isinstance(a, BoolV) and isinstance(b, BoolV):
            return mkbool(c.or2(a.l, b.l) if op == "|" else c.and2(a.l, b.l) if op == "&" else -c.iff(a.l, b.l))
        raise Unsupported("binary operator " + op)

    def arith(self, op, a, b, g):
        if op == "+":
            return int_bin(lambda x, y: x + y, a, b)
        if op == "-":
            if a is OPQ or b is OPQ:
                return OPQ
            self.event(self.c.and2(g, int_lt(a, b)), "panic", "integer underflow")
            return int_bin(lambda x, y: max(x - y, 0), a, b)
        if op == "*":
            return int_bin(lambda x, y: x * y, a, b)
        raise Unsupported("arith " + op)

    def equal(self, a, b):
        c = self.c
        if isinstance(a, BoolV) and isinstance(b, BoolV):
            return c.iff(a.l, b.l)
        if a is UNDEF or b is UNDEF:
            return F
        if (is_int(a) or a is OPQ) and (is_int(b) or b is OPQ):
            return int_eq(a, b)
        if isinstance(a, tuple) and isinstance(b, tuple) and len(a) == len(b):
            return c.andl([self.equal(self.deref(x), self.deref(y)) for x, y in zip(a, b)])
        if isinstance(a, OptV) and isinstance(b, OptV):
            return c.or2(c.and2(-a.some, -b.some), c.and_(a.some, b.some, self.equal(a.val, b.val) if a.some != F and b.some != F else T))
        if isinstance(a, EnumV) and isinstance(b, EnumV):
            r = F
            for k, (ga, pa) in a.alts.items():
                gb, pb = b.alts.get(k, (F, UNDEF))
                if ga != F and gb != F:
                    r = c.or2(r, c.and_(ga, gb, self.equal(pa, pb)))
            return r
        raise Unsupported("equality on %r / %r" % (type(a).__name__, type(b).__name__))

    def e_Cast(self, e, scope, frame, g, hint):
        v = self.deref(self.eval(e["expr"], scope, frame, g))
        tn = ty_name(e["ty"])
        if v is UNDEF:
            return UNDEF
        if tn in INT_TYPES and (is_int(v) or v is OPQ):
            return v
        raise Unsupported("cast to %s of %r" % (tn, v))

    def e_Field(self, e, scope, frame, g, hint):
        base = self.deref(self.eval(e["base"], scope, frame, g))
        mem = e["member"]
        if base is UNDEF:
            return UNDEF
        if isinstance(base, StructV):
            if mem not in base.f:
                raise Unsupported("no field %s in %s" % (mem, base.ty))
            return base.f[mem]
        if isinstance(base, Mux):
            r = UNDEF
            for ga, o in base.alts:
                r = merge(ga, self.deref(o).f[mem], r)
            return r
        if isinstance(base, tuple) and isinstance(mem, int):
            return base[mem]
        if (is_int(base) or base is OPQ) and mem == 0:
            return base     # erased newtype
        raise Unsupported("field %s of %r" % (mem, base))

    def e_Index(self, e, scope, frame, g, hint):
        base = self.deref(self.eval(e["base"], scope, frame, g))
        import strprof
        if strprof.is_str(base) and e["index"]["k"] == "Range":
            r = e["index"]
            if r["inclusive"]:
                raise Unsupported("inclusive range in a string slice")
            a = self.deref(self.eval(r["start"], scope, frame, g)) if r["start"] is not None else None
            b = self.deref(self.eval(r["end"], scope, frame, g)) if r["end"] is not None else None
            return strprof.slice_(self, g, base, a, b, e)
        idx = self.deref(self.eval(e["index"], scope, frame, g))
        if isinstance(base, VecA):
            return base.get(g, idx)
        if isinstance(base, tuple):
            if isinstance(idx, int):
                return base[idx]
            r = UNDEF
            for k, gk in cases_of(idx).items():
                if k < len(base):
                    r = merge(gk, base[k], r)
            return r
        raise Unsupported("index into %r" % (base,))

    def e_Assign(self, e, scope, frame, g, hint):
        v = self.eval(e["right"], scope, frame, g)
        if e["left"]["k"] == "Unary" and e["left"]["op"] == "*":
            tgt = self.eval(e["left"]["expr"], scope, frame, g)
            if isinstance(tgt, LazyV):
                tgt = self.force(tgt)
            self.assign_through(tgt, g, v)
            return UNIT
        pl = self.place(e["left"], scope, frame, g)
        pl.set(g, self.deref(v) if not V.is_object(v) else v)
        return UNIT

    def assign_through(self, tgt, g, v):
        """*tgt = v"""
        if isinstance(tgt, RefV):
            tgt.place.set(g, self.deref(v))
        elif isinstance(tgt, Mux):
            for ga, o in tgt.alts:
                self.assign_through(o, self.c.and2(g, ga), v)
        elif V.is_object(tgt):
            _obj_place(tgt).set(g, v)
        else:
            raise Unsupported("assignment through %r" % (tgt,))

    def e_Block(self, e, scope, frame, g, hint):
        return self.exec_block(e["stmts"], scope, frame, g)

    def e_If(self, e, scope, frame, g, hint):
        c = self.c
        cond = e["cond"]
        sc = Scope(scope)
        if cond["k"] == "LetCond":
            v = self.eval(cond["expr"], scope, frame, g)
            cl = self.bind(cond["pat"], v, sc, g)
        else:
            cl = lit(self.deref(self.eval(cond, scope, frame, g)))
        tv = ev = UNIT
        gt = c.and2(g, cl)
        ge = c.and2(g, -cl)
        if gt != F:
            tv = self.exec_block(e["then"], sc, frame, gt)
        if e["else"] is not None and ge != F:
            ev = self.eval(e["else"], scope, frame, ge, hint)
        if e["else"] is None:
            return UNIT
        if gt == F:
            return ev
        if ge == F:
            return tv
        return merge(cl, tv, ev)

    def e_Match(self, e, scope, frame, g, hint):
        c = self.c
        v = self.eval(e["expr"], scope, frame, g)
        if isinstance(v, LazyV):
            v = self.force(v)
        res = UNDEF
        nomatch = T
        first = True
        for arm in e["arms"]:
            sc = Scope(scope)
            m = self.bind(arm["pat"], v, sc, g)
            ga = c.and_(g, nomatch, m)
            if arm["guard"] is not None and ga != F:
                gl = lit(self.deref(self.eval(arm["guard"], sc, frame, ga)))
                m = c.and2(m, gl)
                ga = c.and2(ga, gl)
            if ga != F:
                av = self.eval(arm["body"], sc, frame, ga, hint)
                take = c.and2(nomatch, m)
                # an arm that diverges (`None => { continue; }`) evaluates to `()`: it contributes no value to a
                # match whose other arms yield one (its path guard is dead from here on)
                if not first and av == () and res != () and res is not UNDEF:
                    pass
                elif not first and res == () and av != ():
                    res = av
                else:
                    res = av if first else merge(take, av, res)
                first = False
            nomatch = c.and2(nomatch, -m)
            if nomatch == F:
                break
        self.event(c.and2(g, nomatch), "panic", "non-exhaustive match (unreachable by rustc's check)")
        return res

    def e_Return(self, e, scope, frame, g, hint):
        v = self.eval(e["expr"], scope, frame, g, frame.ret_ty) if e["expr"] is not None else UNIT
        frame.retval = merge(g, v, frame.retval) if frame.returned != F else v
        frame.returned = self.c.or2(frame.returned, g)
        return UNDEF

    def e_Continue(self, e, scope, frame, g, hint):
        if e["label"] is not None:
            raise Unsupported("labelled continue")
        frame.loops[-1]["cont"] = self.c.or2(frame.loops[-1]["cont"], g)
        return UNDEF

    def e_Break(self, e, scope, frame, g, hint):
        if e["label"] is not None or e["expr"] is not None:
            raise Unsupported("labelled break / break with value")
        frame.loops[-1]["brk"] = self.c.or2(frame.loops[-1]["brk"], g)
        return UNDEF

    def e_Try(self, e, scope, frame, g, hint):
        v = self.deref(self.eval(e["expr"], scope, frame, g))
        if isinstance(v, OptV):
            gn = self.c.and2(g, -v.some)
            if gn != F:
                frame.retval = merge(gn, NONE, frame.retval) if frame.returned != F else NONE
                frame.returned = self.c.or2(frame.returned, gn)
            return v.val
        if isinstance(v, EnumV) and v.ty == "Result":
            ok = v.alts["Ok"][0] if "Ok" in v.alts else F
            ge = self.c.and2(g, -ok)
            if ge != F:
                frame.retval = merge(ge, v, frame.retval) if frame.returned != F else v
                frame.returned = self.c.or2(frame.returned, ge)
            return v.alts["Ok"][1][0] if "Ok" in v.alts else UNDEF
        raise Unsupported("? on %r" % (v,))

    def e_Closure(self, e, scope, frame, g, hint):
        return ClosureV(e["inputs"], e["body"], scope, self)

    def e_Struct(self, e, scope, frame, g, hint):
        name = e["path"][-1]["name"]
        if name == "Self":
            st = scope.lookup("Self")
            if st is None:
                raise Unsupported("Self outside an impl")
            name = st.vars["Self"][1]
        decl = self.p.structs.get(name)
        ftys = {}
        if decl is not None and decl["k"] == "Named":
            ftys = {f["name"]: f["ty"] for f in decl["fields"]}
        fields = {}
        for f in e["fields"]:
            fields[f["member"]] = self.eval(f["expr"], scope, frame, g, ftys.get(f["member"]))
        if e["rest"] is not None:
            raise Unsupported("struct update syntax")
        return StructV(name, fields)

    def e_Macro(self, e, scope, frame, g, hint):
        name = e["name"]
        if name in ("assert", "debug_assert"):
            cl = lit(self.deref(self.eval(e["args"][0], scope, frame, g)))
            self.event(self.c.and2(g, -cl), "panic", "assertion failed: " + e["src"][:80])
            return UNIT
        if name in ("assert_eq", "debug_assert_eq"):
            a = self.deref(self.eval(e["args"][0], scope, frame, g))
            b = self.deref(self.eval(e["args"][1], scope, frame, g))
            self.event(self.c.and2(g, -self.equal(a, b)), "panic", "assertion failed: " + e["src"][:80])
            return UNIT
        if name in ("panic", "unreachable", "unimplemented", "todo"):
            self.event(g, "panic", name + "!: " + e["src"][:80])
            return UNDEF
        if name in ("write", "writeln", "println", "eprintln"):
            # formatting is not modelled; the arguments are evaluated (slices written are events of the string profile)
            for a in (e.get("args") or [])[1:]:
                if isinstance(a, dict) and a.get("k") not in ("Lit",):
                    wv = self.deref(self.eval(a, scope, frame, g))
                    if getattr(self, "on_write", None) is not None:
                        self.on_write(g, wv)
            return EnumV("Result", {"Ok": (T, (UNIT,))}) if name in ("write", "writeln") else UNIT
        if name == "format":
            return OPQ
        if name == "matches" and e.get("args") and len(e["args"]) == 2:
            v = self.eval(e["args"][0], scope, frame, g)
            if isinstance(v, LazyV):
                v = self.force(v)

            def to_pat(x):
                k = x.get("k")
                if k == "Call" and x["func"]["k"] == "Path":
                    return {"k": "TupleStruct", "path": x["func"]["segs"], "elems": [to_pat(a) for a in x["args"]]}
                if k == "Path":
                    if len(x["segs"]) == 1 and x["segs"][0]["name"] == "_":
                        return {"k": "Wild"}
                    return {"k": "Path", "path": x["segs"]}
                if k in ("Infer", "Unsupported"):
                    return {"k": "Wild"}
                if k == "Lit":
                    return {"k": "Lit", "lit": x["lit"]}
                raise Unsupported("matches! pattern " + str(k))
            m = self.bind(to_pat(e["args"][1]), self.deref(v), Scope(scope), g)
            return mkbool(m)
        raise Unsupported("macro " + name)

    # ---- loops
    def run_loop_body(self, body, scope, frame, g):
        frame.loops.append({"brk": F, "cont": F})
        self.exec_block(body, scope, frame, g)
        l = frame.loops.pop()
        return l["brk"]

    def e_ForLoop(self, e, scope, frame, g, hint):
        c = self.c
        it = self.to_iter(self.eval(e["iter"], scope, frame, g), g)
        broke = F
        for gi, item in it.items:
            eg = c.and_(g, gi, -broke, -frame.dead(c))
            if eg == F:
                continue
            sc = Scope(scope)
            self.bind(e["pat"], item, sc, eg, irrefutable=True)
            b = self.run_loop_body(e["body"], sc, frame, eg)
            broke = c.or2(broke, b)
        return UNIT

    def e_Loop(self, e, scope, frame, g, hint):
        c = self.c
        alive = g
        bound = self.loop_bounds.get(frame.fname, self.loop_bound)
        for i in range(bound):
            eg = c.and2(alive, -frame.dead(c))
            if eg == F:
                return UNIT
            b = self.run_loop_body(e["body"], scope, frame, eg)
            alive = c.and2(eg, -b)
        self.event(c.and2(alive, -frame.dead(c)), "bound", "loop bound %d exceeded in %s" % (bound, frame.fname))
        return UNIT

    def e_While(self, e, scope, frame, g, hint):
        c = self.c
        alive = g
        bound = self.loop_bounds.get(frame.fname, self.loop_bound)
        for i in range(bound + 1):
            eg = c.and2(alive, -frame.dead(c))
            if eg == F:
                return UNIT
            sc = Scope(scope)
            cond = e["cond"]
            if cond["k"] == "LetCond":
                v = self.eval(cond["expr"], scope, frame, eg)
                cl = self.bind(cond["pat"], v, sc, eg)
            else:
                cl = lit(self.deref(self.eval(cond, scope, frame, eg)))
            eg = c.and2(eg, cl)
            if eg == F:
                return UNIT
            if i == bound:
                break
            b = self.run_loop_body(e["body"], sc, frame, eg)
            alive = c.and2(eg, -b)
        self.event(eg, "bound", "while bound %d exceeded in %s" % (bound, frame.fname))
        return UNIT

    # ---- iterators
    def to_iter(self, v, g):
        v = self.deref(v)
        if isinstance(v, IterV):
            return v
        if isinstance(v, VecL):
            return IterV(self.vec_items(v, g))
        if isinstance(v, VecA):
            return IterV(v.items())
        if isinstance(v, SetV):
            return IterV(v.items())
        if isinstance(v, MapV):
            return IterV(v.items())
        if isinstance(v, tuple):
            return IterV([(T, x) for x in v])
        if isinstance(v, OptV):
            return IterV([(v.some, v.val)])
        if isinstance(v, Mux):
            items = []
            for ga, o in v.alts:
                items += [(self.c.and2(ga, gi), x) for gi, x in self.to_iter(o, g).items]
            return IterV(items)
        if v is UNDEF:
            return IterV([])          # the value of a diverged path (e.g. `.expect()` on Err: the panic event is recorded there)
        raise Unsupported("iteration over %r" % (v,))

    def vec_items(self, v, g):
        if True:
            items = v.items()
            if self.ctx.dedupe_rows and len(items) > 4 and all(isinstance(x, tuple) and all(is_int(y) for y in x) for _, x in items):
                # WITNESS-SEARCH MODE ONLY (never in lemma mode): a list of rows is read as the set of its
                # values.  Not an equivalence in general; candidates found this way are confirmed by native replay.
                by = {}
                for gi, x in items:
                    if all(isinstance(y, int) for y in x):
                        by[x] = self.c.or2(by.get(x, F), gi)
                    else:
                        import itertools as _it
                        for t in _it.product(*[list(cases_of(y).items()) for y in x]):
                            key = tuple(k for k, _ in t)
                            gg = self.c.andl([gi] + [gk for _, gk in t])
                            if gg != F:
                                by[key] = self.c.or2(by.get(key, F), gg)
                return [(by[k], k) for k in sorted(by)]
            k = self.ctx.compact_k
            if k is not None and len(items) > k and all(is_int(x) for _, x in items):
                # a long guarded list of element ids of which at most k can be live (e.g. `uprooted`):
                # order-preserving compaction; that k suffices is a proof obligation (event kind 'compact')
                items, overflow = V.compact(items, k)
                self.event(self.c.and2(g, overflow), "compact", "more than %d live entries in a compacted Vec" % k)
            return items

    def e_Range(self, e, scope, frame, g, hint):
        s = self.deref(self.eval(e["start"], scope, frame, g)) if e["start"] is not None else None
        t = self.deref(self.eval(e["end"], scope, frame, g)) if e["end"] is not None else None
        if s is None and t is None:
            return ("fullrange",)
        if s is UNDEF or t is UNDEF:
            return IterV([])          # garbage of a path on which a panic event has already been raised
        if e["inclusive"]:
            raise Unsupported("inclusive range")
        # s..t as an iterator of integers: concrete start required
        if not isinstance(s, int):
            if isinstance(s, SInt) and (isinstance(t, (int, SInt))):
                lo = min(cases_of(s))
                hi = max(cases_of(t))
                return IterV([(self.c.and2(-int_lt(k, s), int_lt(k, t)), k) for k in range(lo, hi)])
            raise Unsupported("range with non-integer start")
        hi = max(cases_of(t))
        return IterV([(int_lt(k, t), k) for k in range(s, hi)])

    # ---- calls
    def e_Call(self, e, scope, frame, g, hint):
        f = e["func"]
        if f["k"] == "Path":
            segs = f["segs"]
            name = segs[-1]["name"]
            if len(segs) == 1:
                s = scope.lookup(name)
                if s is not None:
                    args = [self.eval(a, scope, frame, g) for a in e["args"]]
                    return self.call_closure(self.deref(s.vars[name]), g, args)
                return self.call_named(name, e, scope, frame, g, hint)
            tyname = segs[-2]["name"]
            return self.call_assoc(tyname, name, e, scope, frame, g, hint, segs)
        fv = self.eval(f, scope, frame, g)
        args = [self.eval(a, scope, frame, g) for a in e["args"]]
        return self.call_closure(self.deref(fv), g, args)

    def call_named(self, name, e, scope, frame, g, hint):
        if name == "Some":
            return OptV(T, self.eval(e["args"][0], scope, frame, g))
        if name in ("Ok", "Err"):
            return EnumV("Result", {name: (T, (self.eval(e["args"][0], scope, frame, g),))})
        if name in self.p.newtypes:
            return self.deref(self.eval(e["args"][0], scope, frame, g))
        if name in self.natives:
            args = [self.eval(a, scope, frame, g) for a in e["args"]]
            return self.natives[name](self, g, args)
        if name in self.p.links:
            name = self.p.links[name]
        if name in self.p.fns:
            item = self.p.fns[name]
            args = self.eval_args(item, e["args"], scope, frame, g)
            return self.call_fn(item, g, args)
        if name in self.p.structs:
            # tuple struct constructor (non-newtype): a struct with fields 0, 1, ..
            return StructV(name, {i: self.eval(a, scope, frame, g) for i, a in enumerate(e["args"])})
        raise Unsupported("call of unknown function " + name)

    def eval_args(self, item, argexprs, scope, frame, g):
        ptys = [i["ty"] for i in item["sig"]["inputs"] if i["k"] == "Typed"]
        out = []
        for i, a in enumerate(argexprs):
            out.append(self.eval(a, scope, frame, g, ptys[i] if i < len(ptys) else None))
        return out

    def call_assoc(self, tyname, name, e, scope, frame, g, hint, segs):
        if tyname == "Self":
            st = scope.lookup("Self")
            if st is None:
                raise Unsupported("Self outside an impl")
            tyname = st.vars["Self"][1]
        if tyname in self.p.aliases:
            tyname = ty_name(self.resolve_ty(self.p.aliases[tyname]))
        if (tyname, name) in self.p.methods:
            item = self.p.methods[(tyname, name)]
            args = self.eval_args(item, e["args"], scope, frame, g)
            if item["sig"]["inputs"] and item["sig"]["inputs"][0]["k"] == "SelfArg":
                return self.call_fn(item, g, args[1:], self_val=args[0])
            return self.call_fn(item, g, args)
        if tyname in self.p.enums:
            return EnumV(tyname, {name: (T, tuple(self.eval(a, scope, frame, g) for a in e["args"]))})
        args = [self.eval(a, scope, frame, g) for a in e["args"]]
        m = re.match(r"PrefixTree(\d)$", tyname)
        if m and name in ("new", "empty"):
            s = SetV(int(m.group(1)))
            if name == "empty":
                s.frozen = True
            return s
        if tyname == "WBTreeMap" and name == "new":
            return MapV(mkdefault=None)
        if tyname == "WBTreeSet" and name == "new":
            return V.KeySet()
        if tyname in ("Vec", "VecDeque", "BTreeMap") and name == "new":
            if hint is None:
                raise Unsupported("%s::new() without a type annotation" % tyname)
            return self.default_for(hint)
        if tyname == "LazyCell" and name == "new":
            return LazyV(args[0])
        if name == "from" and (tyname in self.p.newtypes or tyname in INT_TYPES or tyname == "T"):
            return self.deref(args[0])
        if name == "try_from" and tyname in INT_TYPES:
            return OptV(T, self.deref(args[0]))     # Result modelled as Option: values are bounded by the universe
        if tyname == "Unification" and name == "new" and ("Unification", "new") in self.p.methods:
            return self.call_fn(self.p.methods[("Unification", "new")], g, [])
        if tyname == "String" and name in ("from_utf8", "from_utf8_lossy"):
            import strprof
            return strprof.from_utf8(self.deref(args[0]))
        if tyname in ("Rc", "Box", "Arc") and name == "new":
            return args[0]            # value semantics: sharing / identity of the allocation is not modelled
        if tyname in ("Rc", "Arc") and name in ("make_mut", "get_mut"):
            return args[0]            # &mut Rc<T> -> &mut T: the same place under value semantics
        if tyname in ("Rc", "Arc") and name in ("unwrap_or_clone", "try_unwrap"):
            return self.deref(args[0])
        if tyname == "mem" and name in ("take", "replace"):
            # std::mem::take(&mut place) / std::mem::replace(&mut place, v): the old value moves out
            tgt = args[0]
            if isinstance(tgt, LazyV):
                tgt = self.force(tgt)
            if isinstance(tgt, RefV):
                old = tgt.place.get()
            elif V.is_object(tgt):
                old = tgt
            else:
                raise Unsupported("mem::%s through %r" % (name, tgt))
            old = self.deref(old)
            moved = V.unfreeze(V.clone(old)) if V.is_object(old) else old
            if name == "replace":
                new = self.deref(args[1])
            elif isinstance(old, VecL):
                new = VecL()
            elif isinstance(old, SetV):
                new = SetV(old.arity)
            elif is_int(old):
                new = 0
            elif isinstance(old, BoolV):
                new = mkbool(F)
            else:
                raise Unsupported("mem::take of %r" % (old,))
            self.assign_through(tgt, g, new)
            return moved
        key = tyname + "::" + name
        if key in self.natives:
            return self.natives[key](self, g, args)
        if name in self.p.fns and tyname not in self.p.structs:
            # module-qualified free function (eqlog_runtime::morphism_toposort)
            if name in self.natives:
                return self.natives[name](self, g, args)
            return self.call_fn(self.p.fns[name], g, args)
        if name in self.natives:
            return self.natives[name](self, g, args)
        raise Unsupported("associated function %s::%s" % (tyname, name))

    def e_MethodCall(self, e, scope, frame, g, hint):
        if e["method"] == "take" and not e["args"]:
            # Option::take(): the place is emptied, the old value moves out
            try:
                pl = self.place(e["recv"], scope, frame, g)
            except Unsupported:
                pl = None
            if pl is not None:
                old = self.deref(pl.get())
                if isinstance(old, OptV):
                    pl.set(g, NONE)
                    return OptV(old.some, old.val)
        recv = self.eval(e["recv"], scope, frame, g)
        return self.method(recv, e["method"], e["args"], scope, frame, g, hint, e)

    def method(self, recv, name, argexprs, scope, frame, g, hint, e):
        import builtins_rs
        if recv is UNDEF:
            for a in argexprs:
                self.eval(a, scope, frame, g)
            return UNDEF
        if isinstance(recv, LazyV):
            recv = self.force(recv)
        if isinstance(recv, RefV):
            inner = recv.place.get()
            if inner is UNDEF:
                for a in argexprs:
                    self.eval(a, scope, frame, g)
                return UNDEF
            if V.is_object(inner) or isinstance(inner, (OptV, tuple, EnumV, Mux)) or is_int(inner) or inner is OPQ or isinstance(inner, BoolV):
                recv = inner
        if isinstance(recv, Mux):
            # apply to every alternative under its guard; merge the results
            res = UNDEF
            firstres = True
            for ga, o in recv.alts:
                gg = self.c.and2(g, ga)
                if gg == F:
                    continue
                r = self.method(o, name, argexprs, scope, frame, gg, hint, e)
                res = r if firstres else merge(ga, r, res)
                firstres = False
            return res
        if isinstance(recv, StructV):
            key = (recv.ty, name)
            if key in self.p.methods:
                item = self.p.methods[key]
                args = self.eval_args_m(item, argexprs, scope, frame, g)
                return self.call_fn(item, g, args, self_val=recv)
            if name == "clone":
                return recv.clone()
            raise Unsupported("method %s on struct %s" % (name, recv.ty))
        return builtins_rs.call_method(self, recv, name, argexprs, scope, frame, g, hint, e)

    def eval_args_m(self, item, argexprs, scope, frame, g):
        ptys = [i["ty"] for i in item["sig"]["inputs"] if i["k"] == "Typed"]
        out = []
        for i, a in enumerate(argexprs):
            out.append(self.eval(a, scope, frame, g, ptys[i] if i < len(ptys) else None))
        return out


class _ObjPlace:
    """`*obj = value` for a mutable object reached through a reference: replace contents in place"""

    def __init__(self, obj):
        self.obj = obj

    def get(self):
        return self.obj

    def set(self, g, v):
        o = self.obj
        v = v if not isinstance(v, RefV) else v.place.get()
        if getattr(o, "frozen", False):
            raise Unsupported("assignment through a reference to a snapshot object")
        m = V.unfreeze(merge(g, V.clone(v) if g != T else v, o))
        if isinstance(o, SetV):
            o.cells = dict(m.cells)
        elif isinstance(o, VecL):
            o.e = m.items()
            o.clears = []
        elif isinstance(o, VecA):
            o.s, o.n = list(m.s), m.n
        elif isinstance(o, MapV):
            o.p, o.v = list(m.p), list(m.v)
        elif isinstance(o, StructV):
            o.f = dict(m.f)
        else:
            raise Unsupported("assignment through reference to %r" % (o,))


def _obj_place(o):
    return _ObjPlace(o)


def frame_self_type(interp, frame):
    return None


def pat_names_all(p):
    k = p["k"]
    if k == "Ident":
        return [p["name"]]
    if k in ("Type", "Ref"):
        return pat_names_all(p["pat"])
    if k in ("Tuple", "Slice", "TupleStruct"):
        return [n for x in p["elems"] for n in pat_names_all(x)]
    if k == "Struct":
        return [n for f in p["fields"] for n in pat_names_all(f["pat"])]
    return []


def pat_names(p):
    k = p["k"]
    if k == "Ident":
        return [p["name"]]
    if k == "Type":
        return pat_names(p["pat"])
    if k in ("Tuple", "Slice", "TupleStruct"):
        return [n for x in p["elems"] for n in pat_names(x)]
    return []
