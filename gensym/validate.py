"""Translator validation of the symbolic executor: random API scripts are run natively (real generated
module + real runtime) and by the interpreter in concrete mode; every return value and a full dump of
the private state at every step must agree."""
import random
from terms import T, F
from interp import ty_name
import model as M
import history as H
import native as N


def api(su, sch):
    muts, queries = [], []
    for (ty, name), item in sorted(su.prog.methods.items()):
        if ty != sch.model or item["vis"] != "pub" or name in ("new", "close", "close_until"):
            continue
        inputs = item["sig"]["inputs"]
        if not inputs or inputs[0]["k"] != "SelfArg":
            continue
        (muts if inputs[0]["mut"] else queries).append((name, item))
    return muts, queries


def random_script(su, sch, rng, ncalls, runner, max_elems=5, terminates=True):
    """generates a script adaptively: the interpreter executes each line as it is produced, so that only
    existing element ids are used as arguments"""
    prog = su.prog
    muts, queries = api(su, sch)
    lines = []
    if not muts:
        emit_lines = ["close", "dump"]          # a theory without any type or relation: nothing to call
        for l in emit_lines:
            runner.run_line(l)
        return emit_lines

    def count(t):
        return runner.m.f[t + "_equalities"].f["parents"].n

    def gen_args(item):
        words = []
        for inp in item["sig"]["inputs"][1:]:
            tn = ty_name(inp["ty"])
            if tn in prog.enums:
                v = rng.choice(prog.enums[tn])
                words.append(v["name"])
                if v["fields"]["k"] == "Unnamed":
                    for fd in v["fields"]["fields"]:
                        t = M.snake(ty_name(fd["ty"]))
                        if count(t) == 0:
                            return None
                        words.append(str(rng.randrange(count(t))))
            else:
                t = M.snake(tn)
                if count(t) == 0:
                    return None
                words.append(str(rng.randrange(count(t))))
        return words

    def emit(l):
        lines.append(l)
        runner.run_line(l)

    for _ in range(ncalls):
        r = rng.random()
        if r < 0.12 and terminates:
            emit("close")
            emit("dump")
            continue
        if r < 0.2:
            emit("close_until %d" % rng.randrange(3))
            emit("dump")
            continue
        name, item = rng.choice(muts if r < 0.85 else queries)
        w = gen_args(item)
        if w is None:
            continue
        out = item["sig"]["output"]
        rt = M.snake(ty_name(out)) if out is not None and ty_name(out) else None
        if rt in sch.types and item["sig"]["inputs"][0]["mut"] and count(rt) >= max_elems:
            continue
        emit(" ".join([name] + w))
        if rng.random() < 0.3:
            emit("dump")
    emit("close" if terminates else "close_until 2")
    emit("dump")
    for name, item in queries:
        w = gen_args(item)
        if w is not None:
            emit(" ".join([name] + w))
    return lines


def validate(su, sch, harness, name, seed, nscripts, ncalls, U=10, terminates=True):
    rng = random.Random(seed)
    bad = []
    samples = []
    for i in range(nscripts):
        r = H.Runner(su, U=U, iter_bound=30)
        try:
            script = random_script(su, sch, rng, ncalls, r, terminates=terminates)
        except Exception as ex:
            if [m for g, k, m in r.ctx.events if g == T and k == "bound"]:
                continue        # the script left the interpreter's bounds (universe / iterations) before the failure: not comparable
            bad.append((None, "interpreter failed: %r" % ex))
            continue
        bounds = [m for g, k, m in r.ctx.events if g == T and k == "bound"]
        if bounds:
            continue            # the script left the interpreter's bounds (universe / iterations): not comparable
        try:
            rc, out, err = harness.run(name, script, timeout=20)
        except Exception as ex:
            bad.append((script, "native run: %r" % ex))
            continue
        panics = [m for g, k, m in r.ctx.events if g == T and k == "panic"]
        if rc != 0:
            if panics:
                continue        # both sides panic (e.g. the EOF class of defects is handled elsewhere)
            bad.append((script, "native run failed but the interpreter saw no panic: " + err[-300:]))
            continue
        if panics:
            bad.append((script, "interpreter reports a panic the native run did not have: %s" % panics[:2]))
            continue
        d = H.compare(sch, N.parse_output(out), r.events)
        if d is not None:
            bad.append((script, d))
        elif len(samples) < 2:
            samples.append(script)
    return bad, samples
