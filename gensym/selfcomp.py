"""C03 (history independence), decided by self-composition: two symbolic public-API histories over the same element
ids assert the same k symbolic facts (insert_ / equate_ with symbolic arguments) -- the second in a symbolic order, with
a symbolic duplicate and with close() calls at symbolic positions in between -- and both end in close().  The solver
shows that the two closed models coincide: same number of elements, same equivalence classes, same tuples modulo
equality.  Programs with `!` are excluded here (derived element ids depend on the order; they are covered by the
idempotence lemma plus C01 + C02: both results are closed and free)."""
import time
from terms import T, F
import terms
import values as V
import model as M
import sem as S
import history as H
import native as N


def facts_api(h):
    """mutators that assert facts about existing elements (no allocation)"""
    return [(n, it) for n, it in h.muts if n.startswith("insert_") or n.startswith("equate_")]


def search(su, U, k, K, timeout_s=300, solver="kissat", assume_acyclic=False, late_forbidden=None):
    """late_forbidden: regex over mutator names that must not be asserted after an intermediate close() of history 2
    (used to exclude the histories of a listed known finding)"""
    import re
    import lemmas as L
    t0 = time.time()
    h1 = H.SymHistory(su, U, None)
    ctx, c = h1.ctx, h1.c
    h2 = H.SymHistory(su, U, None, ctx=ctx)
    counts = {}
    for t in h1.sch.types:
        item = su.prog.methods.get((h1.sch.model, "new_" + t))
        if item is not None and len(item["sig"]["inputs"]) == 1:
            counts[t] = ctx.fresh_int("pre.%s" % t, 0, U)
    h1.precreate(counts)
    h2.precreate(counts)
    api = facts_api(h1)
    if not api:
        return None, "no insert_/equate_ functions"
    # k symbolic facts
    facts = []
    assume = []
    for f in range(k):
        sel = ctx.fresh_int("fact%d.sel" % f, 0, len(api) - 1)
        alts = []
        for j, (name, item) in enumerate(api):
            pre = []
            args = [L.symbolic_arg(ctx, h1.sch, su, h1.st, inp["ty"], "fact%d.%s.arg%d" % (f, name, i), pre) for i, inp in enumerate(item["sig"]["inputs"][1:])]
            assume.append(c.implies(V.int_eq(sel, j), c.andl(pre)))
            alts.append((name, item, args))
        facts.append((sel, alts))

    def apply_fact(h, f, g0):
        sel, alts = facts[f]
        for j, (name, item, args) in enumerate(alts):
            g = c.and2(g0, V.int_eq(sel, j))
            if g != F:
                h.I.call_fn(item, g, args, self_val=h.m)
    # history 1: facts in order, close
    for f in range(k):
        apply_fact(h1, f, T)
    h1.sym_close(K, False, lambda g: None, lambda rv: None)
    # history 2: k+1 positions, each asserts a symbolic fact (every fact at least once), optional close after each position
    pos = []
    for p in range(k + 1):
        idx = ctx.fresh_int("pos%d.fact" % p, 0, k - 1)
        for f in range(k):
            apply_fact(h2, f, V.int_eq(idx, f))
        cl = ctx.fresh_bool("pos%d.close" % p) if p < k else F
        if cl != F:
            h2.sym_close(K, False, lambda g: None, lambda rv: None, guard=cl)
        pos.append((idx, cl))
    for f in range(k):
        assume.append(c.orl([V.int_eq(idx, f) for idx, _ in pos]))
    if late_forbidden:
        for p, (_, cl) in enumerate(pos):
            if cl == F:
                continue
            for q in range(p + 1, len(pos)):
                for f in range(k):
                    sel, alts = facts[f]
                    for j, (name, item, args) in enumerate(alts):
                        if re.search(late_forbidden, name):
                            assume.append(-c.and_(cl, V.int_eq(pos[q][0], f), V.int_eq(sel, j)))
    h2.sym_close(K, False, lambda g: None, lambda rv: None)
    # compare the two closed models
    bad = []
    s1, s2 = h1.st, h2.st
    sem1, sem2 = S.Sem(s1, None, canonical=False), S.Sem(s2, None, canonical=False)
    for t in h1.sch.types:
        bad.append(-V.int_eq(s1.nelems(t), s2.nelems(t)))
        r1 = [s1.root_of(t, i, U) for i in range(U)]
        r2 = [s2.root_of(t, i, U) for i in range(U)]
        for a in range(U):
            for b in range(a + 1, U):
                both = c.and2(s1.in_range(t, a), s1.in_range(t, b))
                bad.append(c.and2(both, -c.iff(V.int_eq(r1[a], r1[b]), V.int_eq(r2[a], r2[b]))))
    for rel in h1.sch.user_rels():
        for row in M.rows_of(rel, U):
            alloc = c.andl([s1.in_range(t, x) for t, x in zip(rel.types, row)])
            bad.append(c.and2(alloc, -c.iff(sem1.holds_mod(rel, row), sem2.holds_mod(rel, row))))
    bound = c.orl([g for g, kk, _ in ctx.events if kk in ("bound", "compact")])
    if assume_acyclic:
        for g, kk, msg in ctx.events:
            if kk == "panic":
                if "on Err" in msg:
                    assume.append(-g)      # a cyclic morphism graph: outside the quantifier of C17
                else:
                    bad.append(g)
    enc = time.time() - t0
    try:
        r, model = terms.solve(c, ctx.assumes + h1.assume + h2.assume + assume + [-bound, c.orl(bad)], solver=solver, timeout_s=timeout_s)
    except terms.SolverError as ex:
        return None, "solver: %s (encode %.1fs, %d nodes)" % (ex, enc, c.n)
    info = {"U": U, "k": k, "K": K, "nodes": c.n, "encode_s": round(enc, 1)}
    if r == "unsat":
        return None, info

    def val(x):
        if isinstance(x, int):
            return x
        for kk, g in V.cases_of(x).items():
            if c.evaluate([g], model)[0]:
                return kk
        return 0

    def fact_line(f):
        sel, alts = facts[f]
        name, item, args = alts[val(sel)]
        return " ".join([name] + [str(val(a)) for a in args])
    pre_lines = []
    for t, n in counts.items():
        pre_lines += ["new_" + t] * val(n)
    script1 = pre_lines + [fact_line(f) for f in range(k)] + ["close"]
    script2 = list(pre_lines)
    for idx, cl in pos:
        script2.append(fact_line(val(idx)))
        if cl != F and c.evaluate([cl], model)[0]:
            script2.append("close")
    script2.append("close")
    return (script1, script2), info


def canonical_model(sch, d):
    """closed native model up to the choice of representatives: (lens, partition, tuples over least class members)"""
    nat = N.canonical_native(sch, d)
    out = {}
    least = {}
    for t in sch.types:
        n, roots = d[("uf", t)].split(" ", 1)
        roots = N.ints(roots)
        m = {}
        for i, r in enumerate(roots):
            m.setdefault(r, i)
        least[t] = [m[r] for r in roots]
        out["len." + t] = int(n)
        out["classes." + t] = least[t]
    for rel in sch.user_rels():
        rows = set(nat[("field", rel.full("new").field)]) | set(nat[("field", rel.full("old").field)])
        out["rel." + rel.name] = sorted(set(tuple(least[t][x] for t, x in zip(rel.types, row)) for row in rows))
    return out


def replay(su, sch, harness, name, scripts):
    outs = []
    for sc in scripts:
        try:
            rc, out, err = harness.run(name, list(sc) + ["dump"], timeout=60)
        except Exception as ex:
            return True, ["native run of %s does not terminate / fails: %r" % (sc, ex)]
        if rc != 0:
            return True, ["native run of %s panics: %s" % (sc, err.strip().split("\n")[0][:200])]
        dumps = [e[2] for e in N.parse_output(out) if e[0] == "dump"]
        outs.append(canonical_model(sch, dumps[-1]))
    diff = [k for k in outs[0] if outs[0][k] != outs[1].get(k)]
    if diff:
        return True, ["the two histories end in different models: %s: %s vs %s" % (k, outs[0][k], outs[1][k]) for k in diff[:4]]
    return False, ["both histories end in the same model"]


def run_task(task):
    """worker: one program; returns dict(status, queries, found, ...)"""
    import pipeline as P
    import lemmas as L
    P.limit_memory(24)
    t0 = time.time()
    res = {"program": task["program"], "plans": [], "status": "proved", "found": None, "queries": 0}
    try:
        su = L.Setup(task["rs"], task["eql"], 2, repo=P.REPO)
        ctx, I, sch = su.fresh()
        harness = N.NativeHarness(task["scratch"], repo=P.REPO)
        harness.exe = task["exe"]
        harness.built = True
        t_end = time.time() + task["budget"]
        for (U, k, K) in task["plans"]:
            left = t_end - time.time()
            if left < 10:
                res["plans"].append({"U": U, "k": k, "K": K, "result": "skipped: time budget"})
                continue
            try:
                found, info = P.with_time_limit(min(left, task["timeout"]), search, su, U, k, K, timeout_s=int(min(left, task["timeout"])))
            except (V.Unsupported, MemoryError, P.Timeout) as ex:
                res["plans"].append({"U": U, "k": k, "K": K, "result": "%s: %s" % (type(ex).__name__, ex)})
                if isinstance(ex, V.Unsupported):
                    res["status"] = "inconclusive"
                    res["reason"] = str(ex)
                continue
            res["queries"] += 1
            if found is None:
                res["plans"].append(dict(info, result="unsat") if isinstance(info, dict) else {"U": U, "k": k, "K": K, "result": str(info)})
                if not isinstance(info, dict) and not str(info).startswith("no insert_"):
                    res["status"] = "inconclusive"
                    res["reason"] = str(info)
                continue
            ok, obs = replay(su, sch, harness, task["program"], found)
            if ok:
                res["status"] = "failed"
                res["found"] = (found, obs, info)
                break
            res["status"] = "inconclusive"
            res["reason"] = "solver histories %s did not reproduce natively" % (found,)
            break
    except Exception:
        import traceback
        res["status"] = "inconclusive"
        res["reason"] = traceback.format_exc()[-1200:]
    if res["status"] == "proved" and not any(p.get("result") == "unsat" for p in res["plans"]):
        res["status"] = "undecided"        # every plan ran into the time budget: nothing is claimed for this program
    res["wall_s"] = round(time.time() - t0, 1)
    return res
