"""C01-R: rule-level completeness on canonical databases (any model size).

For every stage of every reference rule the *canonical database* of its premise is built -- one element per variable
(variables equated by premise equalities or by earlier `then x = y` statements share one), exactly the premise tuples,
every tuple new -- and the real generated rule module (its exported entry function, which runs all semi-naive sub-rules) is
executed on it concretely.  The conclusion instance under the identity assignment must be among the pushed conclusions.
By the homomorphism theorem for conjunctive queries this is equivalent to: for every model of any size, every match of
the reference premise makes the generated code push the conclusion when all matched tuples are new -- the rule-level
half of C01 without a universe bound (the age split is C16's subject).  A failure is replayed natively: the canonical
database is built through the public API, close() is called and the conclusion is queried.
"""
import itertools, json, os, re, time
from terms import T, F, Circuit
import values as V
from values import StructV, SetV, VecL, UNIT, Unsupported
from interp import Interp, ty_name
import model as M
import sem as S
import check_c16 as C16


def stage_list(paths):
    """[(premise atoms, conclusion, tys, equalities established by earlier then-statements)] per then-item"""
    out = []
    for items, tys in paths:
        prem = []
        eqs = []
        for kind, a in items:
            if kind == "if":
                prem.append(a)
                continue
            out.append((list(prem), a, tys, list(eqs)))
            if a[0] == "def":
                prem.append(("rel", a[1], list(a[2]) + [a[3]]))
            elif a[0] == "eq":
                eqs.append((a[1], a[2]))
    return out


class UF:
    def __init__(self):
        self.p = {}

    def find(self, x):
        self.p.setdefault(x, x)
        while self.p[x] != x:
            self.p[x] = self.p[self.p[x]]
            x = self.p[x]
        return x

    def union(self, a, b):
        ra, rb = self.find(a), self.find(b)
        if ra != rb:
            self.p[ra] = rb


def canonical(prem, concl, tys, eqs):
    """(constants per class representative, tuples per relation, typesets) of the canonical database"""
    uf = UF()
    vs = []
    for a in prem + [concl]:
        for v in S.atom_vars(a):
            if v not in vs:
                vs.append(v)
                uf.find(v)
    if concl[0] == "def":
        pass
    for a in prem:
        if a[0] == "eq":
            uf.union(a[1], a[2])
    for x, y in eqs:
        if x in uf.p and y in uf.p:
            uf.union(x, y)
    reps = []
    for v in vs:
        r = uf.find(v)
        if r not in reps:
            reps.append(r)
    # constants are numbered per type (element ids of different types are independent)
    const = {}
    per_type = {}
    for r in reps:
        t = M.snake(tys[r])
        const[r] = per_type.get(t, 0)
        per_type[t] = const[r] + 1
    val = {v: const[uf.find(v)] for v in vs}
    tuples = {}
    for a in prem:
        if a[0] == "rel":
            tuples.setdefault(M.snake(a[1]), set()).add(tuple(val[v] for v in a[2]))
    return vs, val, tuples, per_type


_REL_TYPES = {}


def old_elems_of(old, envdecl):
    """(type, id) of the elements occurring in old tuples; column types come from _REL_TYPES (set by the caller)"""
    out = set()
    for rel, rows in old.items():
        tps = _REL_TYPES.get(rel)
        if tps is None:
            continue
        for row in rows:
            for t, x in zip(tps, row):
                out.add((t, x))
    return out


def build_env(envdecl, U, tuples, per_type, types, old=None):
    """concrete environment: every premise tuple (and every element) is new, the old tables are empty -- except the tuples
    listed in `old` ({rel: rows}), which are old; an element is old iff it occurs in an old tuple (INV-age)"""
    old = old or {}
    old_elems = set()
    f = {}
    outs = {}
    for fd in envdecl["fields"]["fields"]:
        name = fd["name"]
        if name == "phantom":
            f[name] = UNIT
            continue
        m = M.FIELD.match(name)
        if m and (ty_name(fd["ty"]) or "").startswith("PrefixTree"):
            rel = m.group("rel")
            eqs = [int(x) for x in m.group("eqs").split("_")] if m.group("eqs") else None
            order = [int(x) for x in m.group("order").split("_") if x != ""]
            ix = M.Index(name, rel, m.group("age"), eqs, order, None)
            cells = {}
            if rel in types:
                rows_all = [(i,) for i in range(per_type.get(rel, 0))]
                rows_old = [r_ for r_ in rows_all if (rel, r_[0]) in old_elems_of(old, envdecl)]
            else:
                rows_all = tuples.get(rel, set())
                rows_old = old.get(rel, set())
            rows = [r_ for r_ in rows_all if (r_ in rows_old) == (m.group("age") == "old")]
            for row in rows:
                pr = ix.project(row)
                if pr is not None:
                    cells[pr] = T
            f[name] = SetV(len(order), cells, U, frozen=True)
        elif name.startswith("new_"):
            f[name] = VecL()
            outs[name] = f[name]
        else:
            raise Unsupported("rule environment field %s not understood" % name)
    return StructV(envdecl["name"], f), outs


def check_program(task):
    """returns dict(program, stages, violations=[...], skipped=[...], status)"""
    import pipeline as P
    import lemmas as L
    from loader import dump
    P.limit_memory(16)
    t0 = time.time()
    res = {"program": task["program"], "stages": 0, "violations": [], "skipped": [], "status": "ok", "max_vars": 0}
    try:
        su = L.Setup(task["rs"], task["eql"], 2, repo=P.REPO)
        sch = M.Schema(su.prog)
        files = dump([task["rs"]])
        mods = {m[0]: m for m in C16.rule_modules(files)}
        enum_types = set(L.enum_types(su, sch))
        for rname, paths in su.rules:
            mod = mods.get(M.snake(rname))
            if mod is None:
                res["skipped"].append("%s: no rule module of that name" % rname)
                continue
            modname, envdecl, subs, entry = mod
            for k, (prem, concl, tys, eqs) in enumerate(stage_list(paths)):
                vs, val, tuples, per_type = canonical(prem, concl, tys, eqs)
                if any(M.snake(tys[v]) in enum_types for v in vs):
                    res["skipped"].append("%s#%d: variables of an enum type (elements cannot be created freely)" % (rname, k))
                    continue
                U = max([1] + list(per_type.values()))
                res["max_vars"] = max(res["max_vars"], len(vs))
                ctx = V.set_ctx(V.Ctx(Circuit(), U=U))
                I = Interp(su.prog, ctx, loop_bound=U + 1)
                env, outs = build_env(envdecl, U, tuples, per_type, set(sch.types))
                I.call_fn(entry, T, [env])
                res["stages"] += 1

                def pushed(field):
                    lst = outs.get(field)
                    if lst is None:
                        return None
                    return [tuple(I.deref(x) for x in v) for g, v in lst.items() if g == T]
                ok = True
                what = None
                if concl[0] == "rel":
                    want = tuple(val[v] for v in concl[2])
                    got = pushed("new_" + M.snake(concl[1]))
                    # a conclusion that is literally one of the premise tuples holds already; the compiler emits no push for it
                    ok = want in tuples.get(M.snake(concl[1]), set()) or (got is not None and want in got)
                    what = "%s%s" % (M.snake(concl[1]), list(want))
                elif concl[0] == "eq":
                    a, b = val[concl[1]], val[concl[2]]
                    if a != b or M.snake(tys[concl[1]]) != M.snake(tys[concl[2]]):
                        got = pushed("new_%s_equalities" % M.snake(tys[concl[1]]))
                        ok = got is not None and ((a, b) in got or (b, a) in got)
                    what = "%s: %d = %d" % (M.snake(tys[concl[1]]), a, b)
                elif concl[0] == "def":
                    args = tuple(val[v] for v in concl[2])
                    rel = M.snake(concl[1])
                    got = pushed("new_%s_def" % rel)
                    already = any(r[:-1] == args for r in tuples.get(rel, set()))
                    ok = already or (got is not None and args in got)
                    what = "%s%s defined" % (rel, list(args))
                if not ok:
                    # native replay script: the canonical database through the public API, close(), the conclusion query
                    script = []
                    for t in sch.types:
                        script += ["new_" + t] * per_type.get(t, 0)
                    for rel, rows in sorted(tuples.items()):
                        if rel in sch.types:
                            continue
                        for row in sorted(rows):
                            script.append("insert_%s %s" % (rel, " ".join(map(str, row))))
                    script.append("close_until 3" if not task.get("terminates", True) else "close")
                    if concl[0] == "rel":
                        query = "%s %s" % (M.snake(concl[1]), " ".join(str(val[v]) for v in concl[2]))
                        expect = "true"
                    elif concl[0] == "eq":
                        query = "are_equal_%s %d %d" % (M.snake(tys[concl[1]]), val[concl[1]], val[concl[2]])
                        expect = "true"
                    else:
                        query = "%s %s" % (M.snake(concl[1]), " ".join(str(val[v]) for v in concl[2]))
                        expect = "Some"
                    res["violations"].append({"rule": rname, "stage": k, "missing": what, "variables": len(vs), "script": script, "query": query, "expect": expect,
                                              "premise": [list(a) if not isinstance(a, list) else a for a in prem]})
    except Unsupported as ex:
        res["status"] = "inconclusive"
        res["reason"] = "Unsupported: %s" % ex
    except Exception:
        import traceback
        res["status"] = "inconclusive"
        res["reason"] = traceback.format_exc()[-1200:]
    res["wall_s"] = round(time.time() - t0, 1)
    return res


def replay(harness, name, sch, prog, v):
    """native confirmation of a missing conclusion; returns (confirmed, observation)"""
    import history as H
    import native as N
    try:
        rc, out, err = harness.run(name, v["script"] + [v["query"]], timeout=120)
    except Exception as ex:
        return False, "native run failed: %r" % ex
    if rc != 0:
        return True, "native run panics: " + err.strip().split("\n")[0][:200]
    r = [e[1] for e in N.parse_output(out) if e[0] == "ret"][-1]
    r = H.normalise_native_ret(r, set(prog.newtypes))
    good = r.startswith("Some") if v["expect"] == "Some" else r == v["expect"]
    return (not good), "%s = %s after building the rule's premise and close()" % (v["query"], r)


# ---------------------------------------------------------------------------------------------
# C16 at the rule level: ages on canonical databases (any model size, injective matches)
def ages_program(task):
    """for every stage whose conclusion instance is not also produced by another stage of the same rule: on the canonical
    database of the premise with a SYMBOLIC age (new xor old) per premise tuple and per element -- an element of an old tuple is
    old (INV-age) -- the whole rule module pushes the conclusion instance exactly once if some premise tuple (incl. the type
    atoms of the premise) is new, and never if all are old.  Decided by SAT; the canonical database makes the verdict independent
    of the model size for matches with pairwise distinct variable values."""
    import pipeline as P
    import lemmas as L
    from loader import dump
    from pipeline import terms
    P.limit_memory(16)
    t0 = time.time()
    res = {"program": task["program"], "stages": 0, "obligations": 0, "queries": 0, "violations": [], "skipped": [], "status": "ok", "max_atoms": 0}
    try:
        su = L.Setup(task["rs"], task["eql"], 2, repo=P.REPO)
        sch = M.Schema(su.prog)
        files = dump([task["rs"]])
        mods = {m[0]: m for m in C16.rule_modules(files)}
        enum_types = set(L.enum_types(su, sch))
        for rname, paths in su.rules:
            mod = mods.get(M.snake(rname))
            if mod is None:
                continue
            modname, envdecl, subs, entry = mod
            stages = stage_list(paths)
            for k, (prem, concl, tys, eqs) in enumerate(stages):
                if concl[0] not in ("rel", "def") or not prem:
                    continue          # equalities are pushed in both orientations / empty premises are known finding F8
                vs, val, tuples, per_type = canonical(prem, concl, tys, eqs)
                if any(M.snake(tys[v]) in enum_types for v in vs):
                    continue
                rel = M.snake(concl[1])
                want = tuple(val[v] for v in (concl[2] if concl[0] == "rel" else concl[2]))
                if concl[0] == "rel" and want in tuples.get(rel, set()):
                    continue          # tautological conclusion: no push is emitted
                # ambiguity: another stage of the rule with the same conclusion relation whose premise could also match here
                others = [s2 for j, s2 in enumerate(stages) if j != k and s2[1][0] == concl[0] and s2[1][1] == concl[1]]
                if others:
                    res["skipped"].append("%s#%d: another stage of the rule concludes the same relation" % (rname, k))
                    continue
                if modname.startswith("functionality"):
                    continue
                U = max([1] + list(per_type.values()))
                ctx = V.set_ctx(V.Ctx(Circuit(), U=U))
                c = ctx.c
                # symbolic ages
                type_atoms = set((M.snake(a[2]), val[a[1]]) for a in prem if a[0] == "type")
                el_new = {(t, i): ctx.fresh_bool("new.%s[%d]" % (t, i)) for t in sch.types for i in range(per_type.get(t, 0))}
                tup_new = {(r_, row): ctx.fresh_bool("new.%s%s" % (r_, list(row))) for r_, rows in tuples.items() if r_ not in sch.types for row in rows}
                pre = []
                for (r_, row), a in tup_new.items():
                    R = sch.rels.get(r_)
                    if R is None:
                        raise Unsupported("relation %s" % r_)
                    for t, x in zip(R.types, row):
                        pre.append(c.implies(el_new[(t, x)], a))      # an element of an old tuple is old
                f = {}
                outs = {}
                for fd in envdecl["fields"]["fields"]:
                    name = fd["name"]
                    if name == "phantom":
                        f[name] = UNIT
                        continue
                    m = M.FIELD.match(name)
                    if m and (ty_name(fd["ty"]) or "").startswith("PrefixTree"):
                        r_ = m.group("rel")
                        eqs_ = [int(x) for x in m.group("eqs").split("_")] if m.group("eqs") else None
                        order = [int(x) for x in m.group("order").split("_") if x != ""]
                        ix = M.Index(name, r_, m.group("age"), eqs_, order, None)
                        cells = {}
                        if r_ in sch.types:
                            src = {(i,): el_new[(r_, i)] for i in range(per_type.get(r_, 0))}
                        else:
                            src = {row: tup_new[(r_, row)] for row in tuples.get(r_, set())}
                        for row, a in src.items():
                            pr = ix.project(row)
                            if pr is not None:
                                g = a if m.group("age") == "new" else -a
                                cells[pr] = c.or2(cells.get(pr, F), g)
                        f[name] = SetV(len(order), cells, U, frozen=True)
                    elif name.startswith("new_"):
                        f[name] = VecL()
                        outs[name] = f[name]
                    else:
                        raise Unsupported("rule environment field %s not understood" % name)
                I = Interp(su.prog, ctx, loop_bound=U + 1)
                field = "new_%s%s" % (rel, "_def" if concl[0] == "def" else "")
                if field not in outs:
                    res["violations"].append({"rule": rname, "stage": k, "what": "no output vector %s" % field})
                    continue
                pushes = []          # (guard, assignment = values of the loop variables in scope, pushed tuple)

                def on_push(recv, g, pv, scope, e):
                    if recv is not outs[field]:
                        return
                    sigma = {}
                    sc_ = scope
                    while sc_ is not None:
                        for kk, vv in sc_.vars.items():
                            if isinstance(vv, int) and not isinstance(vv, bool) and kk not in sigma:
                                sigma[kk] = vv
                        sc_ = sc_.parent
                    pushes.append((g, tuple(sorted(sigma.items())), tuple(I.deref(x) for x in pv)))
                I.on_push = on_push
                I.call_fn(entry, T, [StructV(envdecl["name"], f)])
                I.on_push = None
                mine = [(g, sg) for g, sg, tv in pushes if all(isinstance(x, int) for x in tv) and tv == want]
                by_sigma = {}
                for g, sg in mine:
                    by_sigma.setdefault(sg, []).append(g)
                all_new = {abs(a): (a > 0) for a in list(tup_new.values()) + list(el_new.values())}
                all_old = {abs(a): not (a > 0) for a in list(tup_new.values()) + list(el_new.values())}
                atoms_new = [a for a in tup_new.values()] + [el_new[(t, i)] for (t, i) in type_atoms]
                some_new = c.orl(atoms_new)
                goals = []
                live_sigmas = [sg for sg, gs in by_sigma.items() if any(c.evaluate(gs, all_new))]
                for sg, gs in sorted(by_sigma.items()):
                    cnt = V.count_lits(gs, cap=2)
                    goals.append(("%s#%d: assignment %s is enumerated at most once" % (rname, k, dict(sg)), -V.int_eq(cnt, 2)))
                    goals.append(("%s#%d: assignment %s is not enumerated when every tuple is old" % (rname, k, dict(sg)), c.implies(-c.orl(list(tup_new.values()) + list(el_new.values())), V.int_eq(cnt, 0))))
                if len(live_sigmas) == 1:
                    cnt = V.count_lits(by_sigma[live_sigmas[0]], cap=2)
                    goals.append(("%s#%d: the match with a new tuple is enumerated exactly once" % (rname, k), c.implies(some_new, V.int_eq(cnt, 1))))
                    goals.append(("%s#%d: the all-old match is not enumerated" % (rname, k), c.implies(-some_new, V.int_eq(cnt, 0))))
                elif len(live_sigmas) > 1:
                    res["skipped"].append("%s#%d: %d assignments give the same conclusion tuple on the canonical database (only duplicate-freeness and the all-old case are checked)" % (rname, k, len(live_sigmas)))
                else:
                    goals.append(("%s#%d: the match is enumerated when all its tuples are new" % (rname, k), F))
                cnt = 0
                res["stages"] += 1
                res["obligations"] += len(goals)
                res["max_atoms"] = max(res["max_atoms"], len(atoms_new))
                r, mdl = terms.solve(c, ctx.assumes + pre + [c.orl([-l for _, l in goals])], solver=task.get("solver", "kissat"), timeout_s=task.get("timeout", 120))
                res["queries"] += 1
                if r == "sat":
                    vals = c.evaluate([l for _, l in goals], mdl)
                    ages = {"%s%s" % (r_, list(row)): ("new" if c.evaluate([a], mdl)[0] else "old") for (r_, row), a in tup_new.items()}
                    ages.update({"%s[%d]" % (t, i): ("new" if c.evaluate([el_new[(t, i)]], mdl)[0] else "old") for (t, i) in type_atoms})
                    res["violations"].append({"rule": rname, "stage": k, "what": [lab for (lab, _), v in zip(goals, vals) if not v],
                                              "ages": ages, "count": [kk for kk, g in V.cases_of(cnt).items() if c.evaluate([g], mdl)[0]] if not isinstance(cnt, int) else [cnt]})
    except (Unsupported,) as ex:
        res["status"] = "inconclusive"
        res["reason"] = "Unsupported: %s" % ex
    except Exception:
        import traceback
        res["status"] = "inconclusive"
        res["reason"] = traceback.format_exc()[-1200:]
    res["wall_s"] = round(time.time() - t0, 1)
    return res


# ---------------------------------------------------------------------------------------------
# C02-R: rule-level soundness on the sub-databases of canonical databases (any model size)
def _stage_vars(prem, concl):
    vs = []
    for a in prem + [concl]:
        for v in S.atom_vars(a):
            if v not in vs:
                vs.append(v)
    return vs


def justified(stages, tys_of, facts, elems, field_kind, rel, tup):
    """is the push (kind, rel, tuple) the conclusion of some stage of the rule under some assignment over `elems` (per type) whose
    premise holds literally in `facts` ({rel: set(rows)})?  Variables equated by premise equalities or by earlier then-equalities of
    the stage's path are identified first."""
    for prem, concl, tys, eqs in stages:
        if concl[0] != field_kind:
            continue
        if field_kind in ("rel", "def") and M.snake(concl[1]) != rel:
            continue
        if field_kind == "eq" and M.snake(tys[concl[1]]) != rel:
            continue
        uf = UF()
        vs = _stage_vars(prem, concl)
        for v in vs:
            uf.find(v)
        for a in prem:
            if a[0] == "eq":
                uf.union(a[1], a[2])
        for x, y in eqs:
            if x in uf.p and y in uf.p:
                uf.union(x, y)
        reps = sorted(set(uf.find(v) for v in vs))
        doms = [range(elems.get(M.snake(tys[r]), 0)) for r in reps]
        for vals in itertools.product(*doms):
            sg = dict(zip(reps, vals))
            val = lambda v: sg[uf.find(v)]
            ok = True
            for a in prem:
                if a[0] == "rel" and tuple(val(v) for v in a[2]) not in facts.get(M.snake(a[1]), ()):
                    ok = False
                    break
            if not ok:
                continue
            if field_kind == "rel" and tuple(val(v) for v in concl[2]) == tup:
                return True
            if field_kind == "def" and tuple(val(v) for v in concl[2]) == tup:
                return True
            if field_kind == "eq" and set((val(concl[1]), val(concl[2]))) == set(tup):
                return True
    return False


def chase(rules, facts, elems, types_of_rel, max_new=3, max_rounds=40):
    """naive reference chase over concrete facts ({rel: set(rows)}) and element counts per type; returns (facts modulo equalities,
    find function per type) or None if it does not stabilise within the bounds"""
    par = {t: list(range(n)) for t, n in elems.items()}

    def find(t, x):
        while par[t][x] != x:
            x = par[t][x]
        return x
    facts = {r: set(rows) for r, rows in facts.items()}
    allstages = [(st, rn) for rn, paths in rules for st in stage_list(paths)]
    created = 0
    for _ in range(max_rounds):
        changed = False
        # canonicalise
        for r in list(facts):
            tps = types_of_rel.get(r)
            if tps is None:
                continue
            new = set(tuple(find(t, x) for t, x in zip(tps, row)) for row in facts[r])
            if new != facts[r]:
                facts[r] = new
        for (prem, concl, tys, eqs), rn in allstages:
            vs = _stage_vars(prem, concl)
            doms = [[x for x in range(len(par[M.snake(tys[v])])) if find(M.snake(tys[v]), x) == x] for v in vs]
            for vals in itertools.product(*doms):
                sg = dict(zip(vs, vals))
                ok = True
                for a in prem:
                    if a[0] == "rel":
                        if tuple(sg[v] for v in a[2]) not in facts.get(M.snake(a[1]), ()):
                            ok = False
                            break
                    elif a[0] == "eq" and sg[a[1]] != sg[a[2]]:
                        ok = False
                        break
                if not ok:
                    continue
                if concl[0] == "rel":
                    row = tuple(sg[v] for v in concl[2])
                    if row not in facts.setdefault(M.snake(concl[1]), set()):
                        facts[M.snake(concl[1])].add(row)
                        changed = True
                elif concl[0] == "eq":
                    t = M.snake(tys[concl[1]])
                    a, b = find(t, sg[concl[1]]), find(t, sg[concl[2]])
                    if a != b:
                        par[t][max(a, b)] = min(a, b)
                        changed = True
                elif concl[0] == "def":
                    rel = M.snake(concl[1])
                    args = tuple(sg[v] for v in concl[2])
                    if not any(r_[:-1] == args for r_ in facts.get(rel, ())):
                        t = types_of_rel[rel][-1]
                        if created >= max_new:
                            return None
                        created += 1
                        par[t].append(len(par[t]))
                        facts.setdefault(rel, set()).add(args + (len(par[t]) - 1,))
                        changed = True
            if changed:
                break
        if not changed:
            return facts, find
    return None


def sound_program(task):
    """for every stage of every (non-functionality) rule with at most 5 variables and 7 premise tuples: the real rule module is run
    concretely on EVERY sub-database of the stage's canonical database; every tuple, equality and definition it pushes must be the
    conclusion of some stage of the same rule under an assignment whose premise holds in that sub-database.  A conjunctive query
    computed by the generated code that is not contained in the reference rule shows up on one of these databases, whatever the
    size of the model.  Returns violations with a native replay script."""
    import pipeline as P
    import lemmas as L
    from loader import dump
    P.limit_memory(16)
    t0 = time.time()
    res = {"program": task["program"], "stages": 0, "databases": 0, "pushes": 0, "violations": [], "skipped": [], "status": "ok"}
    try:
        su = L.Setup(task["rs"], task["eql"], 2, repo=P.REPO)
        sch = M.Schema(su.prog)
        files = dump([task["rs"]])
        mods = {m[0]: m for m in C16.rule_modules(files)}
        enum_types = set(L.enum_types(su, sch))
        types_of_rel = {r.name: r.types for r in sch.rels.values()}
        _REL_TYPES.clear()
        _REL_TYPES.update(types_of_rel)
        for rname, paths in su.rules:
            if rname.startswith("functionality_"):
                continue
            mod = mods.get(M.snake(rname))
            if mod is None:
                continue
            modname, envdecl, subs, entry = mod
            stages = stage_list(paths)
            for k, (prem, concl, tys, eqs) in enumerate(stages):
                vs, val, tuples, per_type = canonical(prem, concl, tys, eqs)
                if any(M.snake(tys[v]) in enum_types for v in vs):
                    continue
                flat = [(r_, row) for r_, rows in sorted(tuples.items()) if r_ not in sch.types for row in sorted(rows)]
                if len(vs) > 5 or len(flat) > 7:
                    res["skipped"].append("%s#%d: %d variables / %d premise tuples" % (rname, k, len(vs), len(flat)))
                    continue
                res["stages"] += 1
                U = max([1] + list(per_type.values()))
                seen = set()
                # every tuple of the canonical database is absent, new or old (3^n databases; all-new only beyond 6 tuples)
                ages_on = len(flat) <= 6
                for combo in itertools.product((0, 1, 2) if ages_on else (0, 1), repeat=len(flat)):
                    sub, sub_old = {}, {}
                    for i, (r_, row) in enumerate(flat):
                        if combo[i]:
                            sub.setdefault(r_, set()).add(row)
                        if combo[i] == 2:
                            sub_old.setdefault(r_, set()).add(row)
                    mask = combo
                    ctx = V.set_ctx(V.Ctx(Circuit(), U=U))
                    I = Interp(su.prog, ctx, loop_bound=U + 1)
                    env, outs = build_env(envdecl, U, sub, per_type, set(sch.types), old=sub_old)
                    I.call_fn(entry, T, [env])
                    res["databases"] += 1
                    for field, lst in outs.items():
                        for g, pv in lst.items():
                            if g != T:
                                continue
                            tup = tuple(I.deref(x) for x in pv)
                            res["pushes"] += 1
                            body = field[len("new_"):]
                            if body.endswith("_equalities"):
                                kind, rel = "eq", body[:-len("_equalities")]
                                if tup[0] == tup[1]:
                                    continue
                            elif body.endswith("_def") and body[:-4] in sch.rels:
                                kind, rel = "def", body[:-4]
                            else:
                                kind, rel = "rel", body
                                if tup in sub.get(rel, ()):
                                    continue          # re-deriving a premise tuple is harmless
                            if justified(stages, tys, sub, per_type, kind, rel, tup):
                                continue
                            key = (kind, rel, tup, mask)
                            if key in seen:
                                continue
                            seen.add(key)
                            if len(res["violations"]) < 6:
                                script = []
                                for t in sch.types:
                                    script += ["new_" + t] * per_type.get(t, 0)
                                # the old tuples first, made old by a close(); then the new ones
                                for r_, rows in sorted(sub_old.items()):
                                    for row in sorted(rows):
                                        script.append("insert_%s %s" % (r_, " ".join(map(str, row))))
                                if sub_old:
                                    script.append("close")
                                for r_, rows in sorted(sub.items()):
                                    for row in sorted(rows):
                                        if row not in sub_old.get(r_, ()):
                                            script.append("insert_%s %s" % (r_, " ".join(map(str, row))))
                                res["violations"].append({"rule": rname, "stage": k, "kind": kind, "rel": rel, "tuple": list(tup), "database": {r_: sorted(map(list, rows)) for r_, rows in sub.items()},
                                                          "old": {r_: sorted(map(list, rows)) for r_, rows in sub_old.items()}, "elements": dict(per_type), "script": script})
    except Unsupported as ex:
        res["status"] = "inconclusive"
        res["reason"] = "Unsupported: %s" % ex
    except Exception:
        import traceback
        res["status"] = "inconclusive"
        res["reason"] = traceback.format_exc()[-1200:]
    res["wall_s"] = round(time.time() - t0, 1)
    return res


def replay_sound(harness, name, su, sch, v, terminates=True):
    """native confirmation of an unjustified push: the sub-database through the public API, close(), and the pushed fact is
    observable although the reference chase of the whole program over the same database (the least model) lacks it.
    Returns (confirmed, observation, certificate)"""
    import history as H
    import native as N
    types_of_rel = {r.name: r.types for r in sch.rels.values()}
    facts = {r_: set(tuple(x) for x in rows) for r_, rows in v["database"].items()}
    ch = chase(su.rules, facts, v["elements"], types_of_rel)
    if ch is None:
        return False, "the reference chase does not stabilise within the bounds: no certificate", None
    cfacts, find = ch
    tup = tuple(v["tuple"])
    if v["kind"] == "rel":
        forced = tuple(find(t, x) for t, x in zip(types_of_rel[v["rel"]], tup)) in cfacts.get(v["rel"], ())
        query, good = "%s %s" % (v["rel"], " ".join(map(str, tup))), "true"
    elif v["kind"] == "eq":
        forced = find(v["rel"], tup[0]) == find(v["rel"], tup[1])
        query, good = "are_equal_%s %d %d" % (v["rel"], tup[0], tup[1]), "true"
    else:
        forced = any(r_[:-1] == tuple(find(t, x) for t, x in zip(types_of_rel[v["rel"]][:-1], tup)) for r_ in cfacts.get(v["rel"], ()))
        query, good = "%s %s" % (v["rel"], " ".join(map(str, tup))), "Some"
    if forced:
        return False, "the pushed fact is forced by other rules of the program on this database", None
    try:
        script = [("close_until 4" if (l == "close" and not terminates) else l) for l in v["script"]]
        rc, out, err = harness.run(name, script + ["close" if terminates else "close_until 4", query], timeout=120)
    except Exception as ex:
        return False, "native run failed: %r" % ex, None
    if rc != 0:
        return True, "native run panics: " + err.strip().split("\n")[0][:200], None
    r = H.normalise_native_ret([e[1] for e in N.parse_output(out) if e[0] == "ret"][-1], set(su.prog.newtypes))
    seen = r.startswith("Some") if good == "Some" else r == good
    cert = {k_: sorted(map(list, rows)) for k_, rows in cfacts.items()}
    return seen, "%s = %s after close(), although the least model of the rules over this database lacks it" % (query, r), cert
