"""C19: the module build and the component build of a program implement the same model.

For every corpus program the real compiler is run twice (build type `module`, build type `component` with the real
rustc and the runtime rlib built from /repo).  All artefacts are parsed with syn (rsdump) on every run and compared:

 (a) rule code: every component source file and the rule submodule embedded in the module build are executed
     symbolically (the exported entry function, which calls all sub-rule functions) on the same arbitrary new/old
     tables; the solver shows that the two push sequences of every output vector are equal entry by entry
     (same guard, same tuple).  AST identity of the two texts is recorded as well.
 (b) environment: the struct declared in the component file, the one in the rule submodule, the top-level one of
     either module text and the struct literal at the call site in close_until bind the same field names, with the same
     types in the same order, to the model / delta fields of the same name.
 (c) symbols: the #[no_mangle] names exported by the component files (and by the embedded submodules) are exactly the
     link_names the module text imports, one to one, with matching signatures, and they are pairwise distinct.
 (d) everything else: the module text without the rule submodules is AST-identical between the two builds, so every
     property decided on the module build (C01..C07, C15, C16) transfers to the component build.

rustc, the linker and the layout of the repr(Rust) environment struct across crates are trusted.
exit 0 / 1 (VIOLATION, with the differing artefacts and -- for (a) -- solver-found tables on which a concrete run of the
two functions differs) / 2 (inconclusive).
"""
import glob, itertools, json, os, re, shutil, subprocess, sys, time
import pipeline as P
from pipeline import L, M, V, terms
from terms import T, F, Circuit
from values import Unsupported
from interp import Interp, ty_name
import check_c16 as C16


TRICKY_NAMES = ["map_a_b", "sem2", "a_b", "x1y2", "poset_v2_x", "PosetCaps", "r2d2", "a1_b2_c", "abc_d_e_f", "two__underscores", "HTTPServer", "v_1_0"]


def strip(x):
    """AST without source positions"""
    if isinstance(x, dict):
        return {k: strip(v) for k, v in x.items() if k != "line"}
    if isinstance(x, list):
        return [strip(v) for v in x]
    return x


def runtime_rlib(scratch):
    """builds eqlog-runtime from /repo with the toolchain /repo pins and returns (rlib path, rustc path)"""
    env = dict(os.environ, CARGO_NET_OFFLINE="true")
    p = subprocess.run(["cargo", "build", "-p", "eqlog-runtime", "--offline", "--message-format=json"], cwd=P.REPO, env=env, capture_output=True, text=True)
    if p.returncode != 0:
        raise P.Inconclusive("eqlog-runtime does not build: " + p.stderr[-1000:])
    rlib = None
    for line in p.stdout.splitlines():
        try:
            m = json.loads(line)
        except Exception:
            continue
        if m.get("reason") == "compiler-artifact" and m.get("target", {}).get("name") in ("eqlog_runtime", "eqlog-runtime"):
            for f in m.get("filenames", []):
                if f.endswith(".rlib"):
                    rlib = f
    if rlib is None:
        raise P.Inconclusive("no rlib artefact for eqlog-runtime")
    rustc = subprocess.run(["rustup", "which", "rustc"], cwd=P.REPO, capture_output=True, text=True).stdout.strip() or "rustc"
    return rlib, rustc


def struct_sig(s):
    return (s["name"], s.get("generics"), [(f["name"], json.dumps(strip(f["ty"]), sort_keys=True)) for f in s["fields"]["fields"]])


def find_struct_literals(node, out):
    if isinstance(node, dict):
        if node.get("k") == "Struct" and "path" in node and "rest" in node:
            out.append(node)
        for v in node.values():
            find_struct_literals(v, out)
    elif isinstance(node, list):
        for v in node:
            find_struct_literals(v, out)


def expr_src(e):
    """compact rendering of the initialiser forms used at the call site: &self.f, &mut delta.f, paths"""
    k = e.get("k")
    if k == "Reference":
        return ("&mut " if e.get("mut") else "&") + expr_src(e["expr"])
    if k == "Field":
        return expr_src(e["base"]) + "." + str(e.get("member"))
    if k == "Path":
        return "::".join(sg["name"] for sg in e.get("segs", []))
    if k == "Paren":
        return expr_src(e["expr"])
    return "<%s>" % k


def check_program(task):
    P.limit_memory(16)
    t0 = time.time()
    name = task["program"]
    res = {"program": name, "violations": [], "obligations": 0, "queries": 0, "rules": 0, "ast_identical_rules": 0, "samples": []}
    try:
        from loader import dump
        comp_files = sorted(glob.glob(os.path.join(task["comp_dir"], "*.rs")))
        files = dump([task["rs_m"], task["rs_c"]] + comp_files)
        mod_m, mod_c = files[task["rs_m"]], files[task["rs_c"]]

        def viol(what, detail):
            res["violations"].append({"what": what, "detail": detail})

        # ---- (d) module text minus rule submodules
        def is_rule_mod(it):
            return it["k"] == "Mod" and it.get("items") is not None and any(x["k"] == "Fn" and any("no_mangle" in a for a in x["attrs"]) for x in it["items"])
        rest_m = [strip(it) for it in mod_m if not is_rule_mod(it)]
        rest_c = [strip(it) for it in mod_c if not is_rule_mod(it)]
        res["obligations"] += 1
        if any(is_rule_mod(it) for it in mod_c):
            viol("the module text of the component build embeds rule submodules", [it["name"] for it in mod_c if is_rule_mod(it)])
        if rest_m != rest_c:
            diffs = []
            for i, (a, b) in enumerate(itertools.zip_longest(rest_m, rest_c)):
                if a != b:
                    diffs.append({"item": i, "module_build": json.dumps(a)[:300], "component_build": json.dumps(b)[:300]})
            viol("the module text (without rule submodules) differs between the two builds", diffs[:3])
        # ---- collect the four declarations of every rule environment
        rmods = {m[0]: m for m in C16.rule_modules({task["rs_m"]: mod_m})}
        comps = {}
        for cf in comp_files:
            items = files[cf]
            fns = [x for x in items if x["k"] == "Fn"]
            envs = [x for x in items if x["k"] == "Struct" and x["name"].endswith("Env")]
            entry = [f for f in fns if any("no_mangle" in a for a in f["attrs"])]
            if len(envs) != 1 or len(entry) != 1:
                viol("component source %s does not consist of one environment struct and one exported function" % os.path.basename(cf), [len(envs), len(entry)])
                continue
            comps[entry[0]["sig"]["name"]] = (cf, envs[0], [f for f in fns if f is not entry[0]], entry[0], items)
        exported_m = {m[3]["sig"]["name"]: m for m in rmods.values()}
        res["rules"] = len(exported_m)

        def imports(mod):
            """{link_name: [(fn name, [parameter types as text], return type text)]}; syn 2 does not parse `safe fn`, so the
            foreign items are read from their token text"""
            out = {}
            for it in mod:
                if it["k"] == "ForeignMod":
                    if it.get("abi") != "Rust":
                        viol("extern block with ABI %r" % it.get("abi"), it.get("abi"))
                    for fi in it["items"]:
                        src = fi.get("src") if fi["k"] == "Unsupported" else None
                        if src is None:
                            raise Unsupported("foreign item parsed by syn: adapt imports()")
                        m = re.match(r'^\s*#\s*\[\s*link_name\s*=\s*"([^"]+)"\s*\]\s*(?:safe\s+)?fn\s+(\w+)\s*\((.*)\)\s*(?:->\s*(.*?))?\s*;\s*$', src)
                        if not m:
                            raise Unsupported("foreign item not understood: " + src[:200])
                        params = [p.split(":", 1)[1].strip() for p in m.group(3).split(",") if ":" in p]
                        out.setdefault(m.group(1), []).append((m.group(2), params, m.group(4)))
            return out
        imp_m, imp_c = imports(mod_m), imports(mod_c)
        # ---- (c) symbols
        res["obligations"] += 3
        if set(imp_c) != set(comps):
            viol("imported link_names and exported #[no_mangle] names of the component build differ", {"imported only": sorted(str(x) for x in set(imp_c) - set(comps)), "exported only": sorted(set(comps) - set(imp_c))})
        if set(imp_m) != set(exported_m):
            viol("imported link_names and exported #[no_mangle] names of the module build differ", {"imported only": sorted(str(x) for x in set(imp_m) - set(exported_m)), "exported only": sorted(set(exported_m) - set(imp_m))})
        if any(len(v) != 1 for v in list(imp_m.values()) + list(imp_c.values())):
            viol("a link_name is imported more than once", [k for k, v in list(imp_m.items()) + list(imp_c.items()) if len(v) != 1])
        if set(comps) != set(exported_m):
            viol("the component files and the embedded rule submodules export different symbols", {"component only": sorted(set(comps) - set(exported_m)), "module only": sorted(set(exported_m) - set(comps))})
        theory = os.path.basename(task["rs_m"])[:-len(".eql.rs")]      # the compiler's own snake-casing of the file name
        if os.path.basename(task["rs_c"]) != os.path.basename(task["rs_m"]):
            viol("the two builds name the module file differently", [os.path.basename(task["rs_m"]), os.path.basename(task["rs_c"])])
        for sym in sorted(set(comps) | set(exported_m)):
            res["obligations"] += 1
            if not re.match(r"^eql_%d_%s_" % (len(theory), re.escape(theory)), sym):
                viol("exported symbol %s is not prefixed with the theory name and its length" % sym, sym)
        top_m = {s["name"]: s for s in mod_m if s["k"] == "Struct" and s["name"].endswith("Env")}
        top_c = {s["name"]: s for s in mod_c if s["k"] == "Struct" and s["name"].endswith("Env")}
        model_ty = ty_name([it for it in mod_m if it["k"] == "TypeAlias" and it["name"] == "Model"][0]["ty"]) if any(it["k"] == "TypeAlias" and it["name"] == "Model" for it in mod_m) else None
        model_fields, delta_fields = {}, {}
        for it in mod_m:
            if it["k"] == "Struct" and it["name"] == model_ty:
                model_fields = {f["name"]: f["ty"] for f in it["fields"]["fields"]}
            if it["k"] == "Struct" and it["name"] == "ModelDelta":
                delta_fields = {f["name"]: f["ty"] for f in it["fields"]["fields"]}
        lits = []
        find_struct_literals(mod_c, lits)
        su = None
        for sym in sorted(set(comps) & set(exported_m)):
            cf, env_comp, subs_comp, entry_comp, items_comp = comps[sym]
            modname, env_mod, subs_mod, entry_mod = exported_m[sym]
            ename = env_comp["name"]
            # ---- (b) the environment on both sides of the boundary
            decls = {"component file": env_comp, "embedded submodule": env_mod, "module text (module build)": top_m.get(ename), "module text (component build)": top_c.get(ename)}
            res["obligations"] += len(decls)
            ref = struct_sig(env_comp)
            for where, d in decls.items():
                if d is None:
                    viol("environment struct %s is not declared in the %s" % (ename, where), ename)
                elif struct_sig(d) != ref:
                    viol("environment struct %s is declared differently in the component file and in the %s" % (ename, where), {"component file": ref[2], where: struct_sig(d)[2]})
            for fi, what in ((imp_c.get(sym, [None])[0], "component build"), (imp_m.get(sym, [None])[0], "module build")):
                if fi is None:
                    continue
                res["obligations"] += 1
                a = [re.sub(r"\s+", "", p) for p in fi[1]]
                b = [re.sub(r"\s+", "", i["ty"].get("src") or ty_name(i["ty"]) or "?") for i in entry_comp["sig"]["inputs"]]
                if a != b or fi[2] is not None or entry_comp["sig"]["output"] is not None:
                    viol("signature of %s differs between import (%s) and export" % (sym, what), {"import": a, "export": b})
            mine = [l for l in lits if l["path"] and l["path"][-1]["name"] == ename]
            res["obligations"] += 1
            if len(mine) != 1:
                viol("environment %s is constructed %d times in the module text" % (ename, len(mine)), ename)
            else:
                init = {}
                for fv in mine[0]["fields"]:
                    init.setdefault(fv["member"], []).append(fv["expr"])
                for fname, fty in ref[2]:
                    res["obligations"] += 1
                    es = init.get(fname, [])
                    if len(es) != 1:
                        viol("field %s of %s is initialised %d times at the call site" % (fname, ename, len(es)), fname)
                        continue
                    srcx = expr_src(es[0])
                    if fname == "phantom":
                        continue
                    want = "&mut delta.%s" % fname if fname.startswith("new_") and fname in delta_fields else "&self.%s" % fname
                    if srcx != want:
                        viol("field %s of %s is bound to `%s` at the call site (expected `%s`)" % (fname, ename, srcx, want), {"field": fname, "bound to": srcx})
                        continue
                    src_ty = delta_fields.get(fname) if want.startswith("&mut") else model_fields.get(fname)
                    if src_ty is None:
                        viol("field %s of %s has no source field in the model / delta" % (fname, ename), fname)
                    else:
                        envt = [f for f in env_comp["fields"]["fields"] if f["name"] == fname][0]["ty"]
                        inner = envt.get("elem") if envt.get("k") == "Ref" else None
                        if inner is None or strip(inner) != strip(src_ty):
                            viol("field %s of %s has a type different from the model field it borrows" % (fname, ename), {"env": json.dumps(strip(envt))[:200], "model": json.dumps(strip(src_ty))[:200]})
                extra = set(init) - set(n for n, _ in ref[2])
                if extra:
                    viol("call site of %s initialises unknown fields" % ename, sorted(extra))
            # ---- (a) the rule code
            same_ast = strip([env_comp] + subs_comp + [entry_comp]) == strip([env_mod] + subs_mod + [entry_mod])
            res["ast_identical_rules"] += 1 if same_ast else 0
            if su is None:
                su = L.Setup(task["rs_m"], task["eql"], task["U"], repo=P.REPO)
            for U in task["Us"]:
                ctx = V.set_ctx(V.Ctx(Circuit(), U=U))
                c = ctx.c
                base = {}
                outs = {}
                for side, envd, subs, entry in (("component", env_comp, subs_comp, entry_comp), ("module", env_mod, subs_mod, entry_mod)):
                    prog = su.prog.__class__()
                    prog.load({"x": [envd] + subs + [entry] if side == "module" else items_comp})
                    # runtime + module context (newtypes, PrefixTree constructors) come from the module program
                    for k2 in ("structs", "enums", "aliases", "methods", "newtypes"):
                        src = getattr(su.prog, k2)
                        dst = getattr(prog, k2)
                        if isinstance(src, dict):
                            for kk, vv in src.items():
                                dst.setdefault(kk, vv)
                        else:
                            dst |= src
                    I = Interp(prog, ctx, loop_bound=U)
                    env, o = C16.build_env(ctx, envd, U, "real", base)
                    I.call_fn(entry, T, [env])
                    outs[side] = o
                goals = []
                for fld in sorted(set(outs["component"]) | set(outs["module"])):
                    a = outs["component"].get(fld)
                    b = outs["module"].get(fld)
                    if a is None or b is None:
                        viol("output vector %s exists on one side only" % fld, sym)
                        continue
                    ia, ib = a.items(), b.items()
                    if len(ia) != len(ib):
                        goals.append(("%s: %s: both builds push the same number of entries" % (sym, fld), F))
                        continue
                    for i, ((ga, va), (gb, vb)) in enumerate(zip(ia, ib)):
                        goals.append(("%s: %s[%d]: pushed under the same condition" % (sym, fld, i), c.iff(ga, gb)))
                        goals.append(("%s: %s[%d]: same tuple" % (sym, fld, i), c.implies(c.and2(ga, gb), c.andl([V.int_eq(x, y) for x, y in zip(va, vb)]))))
                res["obligations"] += len(goals)
                bad = c.orl([-l for _, l in goals])
                if bad == F:
                    res["queries"] += 1          # the miter is constant false: the two circuits are identical
                    continue
                r, mdl = terms.solve(c, ctx.assumes + [bad], solver=task["solver"], timeout_s=task["timeout"])
                res["queries"] += 1
                if r == "sat":
                    vals = c.evaluate([l for _, l in goals], mdl)
                    failing = [lab for (lab, _), v in zip(goals, vals) if not v]
                    state = {}
                    for (rel, ar), (new, old) in base.items():
                        state[rel] = {"new": [list(r_) for r_, g in new.items() if c.evaluate([g], mdl)[0]],
                                      "old": [list(r_) for r_, g in old.items() if c.evaluate([g], mdl)[0]]}
                    viol("rule code of %s differs between component file and embedded submodule" % sym, {"failing": failing[:4], "tables": state, "U": U})
                    break
            if len(res["samples"]) < 2:
                res["samples"].append("%s: component file %s vs submodule `%s` (AST identical: %s)" % (name, os.path.basename(cf), modname, same_ast))
        res["status"] = "ok"
    except (Unsupported, terms.SolverError, P.Inconclusive, MemoryError) as ex:
        res["status"] = "inconclusive"
        res["reason"] = "%s: %s" % (type(ex).__name__, ex)
    except Exception:
        import traceback
        res["status"] = "inconclusive"
        res["reason"] = traceback.format_exc()[-1500:]
    res["wall_s"] = round(time.time() - t0, 2)
    return res


def main():
    tier = sys.argv[1]
    seed = int(os.environ.get("VERIF_SEED", "1"))
    t0 = time.time()
    scratch = P.scratch_dir()
    try:
        P.ensure_rsdump()
        exe, build_s = P.build_compiler()
        rlib, rustc = runtime_rlib(scratch)
        corpus = P.Corpus(scratch, exe, seed, tier, want_random=True)
        extra = P.repo_theories(scratch, exe) if tier != "quick" else {}
    except P.Inconclusive as ex:
        print("INCONCLUSIVE: %s" % ex)
        sys.exit(2)
    progs = dict(corpus.programs)
    progs.update(extra)
    # the component build of the same sources
    tasks = []
    inconc_pre = []
    for srcdir, tag in ((corpus.src, "corpus"),) + (((os.path.join(scratch, "repo_src"), "repo"),) if extra else ()):
        out_c = os.path.join(scratch, "c19_out_" + tag)
        comp = os.path.join(scratch, "c19_comp_" + tag)
        shutil.rmtree(out_c, ignore_errors=True)
        shutil.rmtree(comp, ignore_errors=True)
        p = P.sh([exe, srcdir, out_c, "--build-type", "component", "--component-out-dir", comp, "--runtime-rlib-path", rlib, "--rustc-path", rustc], timeout=3000)
        if p.returncode != 0:
            print("INCONCLUSIVE: component build fails: " + (p.stdout + p.stderr)[-1500:])
            sys.exit(2)
        for name, pr in sorted(progs.items()):
            if (pr.get("kind") == "repo") != (tag == "repo"):
                continue
            base = os.path.basename(pr["eql"])
            rs_c = os.path.join(out_c, M.snake(base[:-4]) + ".eql.rs")
            cd = os.path.join(comp, base)
            if not os.path.exists(rs_c) or not os.path.isdir(cd):
                inconc_pre.append("%s: component build produced no %s / %s" % (name, rs_c, cd))
                continue
            tasks.append({"program": base[:-4], "label": name, "rs_m": pr["rs"], "rs_c": rs_c, "comp_dir": cd, "eql": pr["eql"], "U": 2,
                          "Us": [2] if (tier == "quick" or pr.get("kind") == "repo") else [2, 3],
                          "solver": os.environ.get("VERIF_SOLVER", "kissat"), "timeout": 120 if tier == "quick" else 900})
    # the same small program under file names that stress the name mangling (snake / camel round trips, digits, single letters)
    kernel = open(os.path.join(P.VERIF, "corpus", "kernels", "poset.eql")).read()
    for i, nm in enumerate(TRICKY_NAMES if tier != "quick" else TRICKY_NAMES[:6]):
        d = os.path.join(scratch, "c19_name_%d" % i)
        shutil.rmtree(d, ignore_errors=True)
        os.makedirs(os.path.join(d, "src"))
        eql = os.path.join(d, "src", nm + ".eql")
        open(eql, "w").write(kernel)
        p1 = P.sh([exe, os.path.join(d, "src"), os.path.join(d, "out_m")], timeout=600)
        p2 = P.sh([exe, os.path.join(d, "src"), os.path.join(d, "out_c"), "--build-type", "component", "--component-out-dir", os.path.join(d, "comp"),
                   "--runtime-rlib-path", rlib, "--rustc-path", rustc], timeout=600)
        if p1.returncode != 0 or p2.returncode != 0:
            inconc_pre.append("file name %s: the compiler fails: %s" % (nm, (p1.stderr + p2.stderr)[-300:]))
            continue
        ms, cs, cds = glob.glob(os.path.join(d, "out_m", "*.eql.rs")), glob.glob(os.path.join(d, "out_c", "*.eql.rs")), glob.glob(os.path.join(d, "comp", "*"))
        if len(ms) != 1 or len(cs) != 1 or len(cds) != 1:
            inconc_pre.append("file name %s: unexpected outputs %s %s %s" % (nm, ms, cs, cds))
            continue
        tasks.append({"program": nm, "label": "name:" + nm, "rs_m": ms[0], "rs_c": cs[0], "comp_dir": cds[0], "eql": eql, "U": 2, "Us": [2],
                      "solver": os.environ.get("VERIF_SOLVER", "kissat"), "timeout": 120})
    import multiprocessing as mp
    with mp.get_context("fork").Pool(min(16, max(1, len(tasks))), maxtasksperchild=1) as pool:
        results = pool.map(check_program, tasks, chunksize=1)
    wall = time.time() - t0
    viol = [(r["program"], v) for r in results for v in r["violations"]]
    inconc = [r for r in results if r["status"] != "ok"]
    replay = None
    if viol:
        os.makedirs(os.path.join(P.VERIF, "evidence", "replays"), exist_ok=True)
        replay = os.path.join(P.VERIF, "evidence", "replays", "C19.json")
        eqls = {t["program"]: t["eql"] for t in tasks}
        json.dump([{"program": n, "eql": open(eqls[n]).read(), "violation": v,
                    "how": "compile the program with /repo's eqlog in both build types (eqlog SRC OUT; eqlog SRC OUT2 --build-type component "
                           "--component-out-dir COMP --runtime-rlib-path <rlib>) and compare the named artefacts; for rule code differences run the two "
                           "entry functions on the listed tables"} for n, v in viol[:20]], open(replay, "w"), indent=1)
    cov = {
        "explanation": __doc__,
        "programs": len(tasks),
        "program_names": sorted(t["label"] for t in tasks),
        "rules_compared": sum(r["rules"] for r in results),
        "rules_ast_identical": sum(r["ast_identical_rules"] for r in results),
        "disagreements_checked": sum(r["obligations"] for r in results),
        "solver_queries": sum(r["queries"] for r in results),
        "samples": [s for r in results for s in r["samples"]][:6] or ["(none)"],
        "bounds": {"universe for the rule-code equivalence": sorted(set(u for t in tasks for u in t["Us"])), "tables": "arbitrary disjoint new/old contents of every relation"},
        "functions_encoded": "every exported rule function (with the sub-rule functions it calls) of every component source file and of every embedded rule submodule",
        "inconclusive": [{k: r.get(k) for k in ("program", "reason")} for r in inconc][:10] + inconc_pre[:10],
        "compiler_build_s": round(build_s, 1),
    }
    P.write_evidence("C19", tier, seed, "translation_validation", cov,
                     ["rustc, the linker and the layout of repr(Rust) structs across crates are trusted",
                      "PrefixTreeN set semantics (C08)", "programs are sampled: kernels, seeded random programs, in the thorough tier the repository's own theories",
                      "behavioural equality of the two builds follows from (a)-(d) plus the checks of the module build; it is not re-established by running histories"],
                     wall, len(viol))
    if viol:
        print("VIOLATION property=C19 replay=%s" % replay)
        for n, v in viol[:6]:
            print("  program=%s: %s %s" % (n, v["what"], json.dumps(v["detail"])[:300]))
        sys.exit(1)
    if inconc or inconc_pre:
        for r in inconc[:10]:
            print("INCONCLUSIVE: %s: %s" % (r["program"], r.get("reason", "")[:600]))
        for s in inconc_pre[:10]:
            print("INCONCLUSIVE: " + s)
        sys.exit(2)
    print("OK property=C19 tier=%s programs=%d rules=%d (AST-identical %d) obligations=%d queries=%d wall=%.0fs" % (
        tier, len(tasks), cov["rules_compared"], cov["rules_ast_identical"], cov["disagreements_checked"], cov["solver_queries"], wall))


def _guarded_main():
    """an internal error of the machinery is never a verdict: exit 2 (inconclusive), not a traceback with exit 1"""
    try:
        main()
    except SystemExit:
        raise
    except BaseException:
        import traceback
        print("INCONCLUSIVE: internal error of the check: " + traceback.format_exc()[-1500:])
        sys.exit(2)


if __name__ == "__main__":
    _guarded_main()
