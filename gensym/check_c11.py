"""C11 (leaf kernels): diagnostics never panic and print complete lines of the input that contain the reported position.

Interpreted from the real source on every run (syn AST -> predicated symbolic execution -> SAT):
  eqlog/src/build.rs::whipe_comments, eqlog/src/source_display.rs::{line_locations, intersecting_line_locations,
  <SourceDisplay as Display>::fmt}, eqlog/src/grammar_util.rs::Location::{is_empty, intersect}, and the location
  arithmetic of `impl From<ParseError> for CompileError` in eqlog/src/error.rs.
Input: a text T of at most L bytes over the alphabet {a, /, space, \\n, \\r, the two bytes of e-acute} (well-formed UTF-8) with
symbolic length.  W = whipe_comments(T) is what the parser sees; a location is what the front end can report on W:
  span     Location(l, r), 0 <= l < r <= len(W), W[l] and W[r-1] not white space, l and r on char boundaries
  eof      the conversion of ParseError::UnrecognizedEof { location: len(W) }
  invalid  the conversion of ParseError::InvalidToken { location: p }, p < len(W) the start of a non-blank char
The diagnostic is `SourceDisplay { source: T, location, underlined: true }` (build.rs passes the ORIGINAL text).
Goals, for every T and every such location:
  no-panic   fmt reaches no panic (the explicit panic!, unwrap on None, slice index panics incl. char boundaries)
  lines      every slice of T it prints is a complete line of T (starts after a \\n or at 0, ends before \\n / \\r\\n or at the end)
  contains   some printed line contains the start of the location (a <= l <= b)
  number     the line number printed with a slice is 1 + the number of \\n before it
  offsets    whipe_comments keeps every non-blank byte at its offset: W[k] != ' ' => W[k] == T[k], len(W) <= len(T)
Outside the claim: the lalrpop parser / lexer, the semantic checks and their `locations.get(..).unwrap()`, formatting
(`write!` is not modelled beyond its arguments), termination of the front end.  str::{lines, find, len}, slicing, String::push
and join are built-ins validated against std through the composition test below.
"""
import itertools, json, os, re, subprocess, sys, time, random
import pipeline as P
from pipeline import V, terms
from terms import T, F, Circuit
from values import StructV, OptV, NONE, OPQ, mkbool, lit, int_eq, int_lt, cases_of, Unsupported
from interp import Interp, Program, Scope, Frame
from loader import dump
import strprof as SP

ALPHABET = [97, 47, 32, 10, 13, 0xC3, 0xA9]
FILES = ["eqlog/src/source_display.rs", "eqlog/src/grammar_util.rs", "eqlog/src/build.rs", "eqlog/src/error.rs"]


def load():
    files = dump([os.path.join(P.REPO, f) for f in FILES])
    prog = Program()
    prog.load({k: v for k, v in files.items() if not k.endswith("error.rs")})
    disp = None
    for it in files[os.path.join(P.REPO, FILES[0])]:
        if it["k"] == "Impl" and it.get("trait") and "Display" in json.dumps(it["trait"]) and "SourceDisplay" in json.dumps(it["self_ty"]):
            for ii in it["items"]:
                if ii["k"] == "Fn" and ii["sig"]["name"] == "fmt":
                    disp = ii
    if disp is None:
        raise P.Inconclusive("<SourceDisplay as Display>::fmt not found")
    for need in ("whipe_comments", "line_locations", "intersecting_line_locations"):
        if need not in prog.fns:
            raise P.Inconclusive("function %s not found" % need)
    # the location expressions of `impl From<ParseError<..>> for CompileError`
    conv = {}
    for it in files[os.path.join(P.REPO, FILES[3])]:
        if it["k"] == "Impl" and it.get("trait") and "From" in json.dumps(it["trait"]) and "ParseError" in json.dumps(it["trait"]):
            for ii in it["items"]:
                if ii["k"] != "Fn" or ii["sig"]["name"] != "from":
                    continue
                body = ii["body"]
                m = [s for s in body if s["k"] == "Expr" and s["expr"]["k"] == "Match"]
                if not m:
                    continue
                for arm in m[0]["expr"]["arms"]:
                    pat = arm["pat"]
                    if pat["k"] != "Struct":
                        continue
                    variant = pat["path"][-1]["name"]
                    b = arm["body"]
                    if b["k"] == "Struct":
                        for fv in b["fields"]:
                            if fv["member"] == "location":
                                conv.setdefault(variant, (pat, fv["expr"]))
    for need in ("InvalidToken", "UnrecognizedEof"):
        if need not in conv:
            raise P.Inconclusive("conversion of ParseError::%s not found in error.rs" % need)
    return prog, disp, conv


def mk_interp(prog, ctx, cap):
    I = Interp(prog, ctx, loop_bound=cap + 2)
    I.str_cap = cap
    I.natives["max"] = lambda I_, g, a: V.int_bin(max, I_.deref(a[0]), I_.deref(a[1]))
    I.natives["min"] = lambda I_, g, a: V.int_bin(min, I_.deref(a[0]), I_.deref(a[1]))
    I.natives["itertools::max"] = lambda I_, g, a: SP.iter_max(I_, I_.to_iter(I_.deref(a[0]), g))
    return I


def eval_conv(I, conv, variant, binding):
    """evaluates the `location: <expr>` of a conversion arm with the pattern variables bound"""
    pat, ex = conv[variant]
    sc = Scope()
    for k, v in binding.items():
        sc.vars[k] = v
    fr = Frame("from", None)
    v = I.deref(I.eval(ex, sc, fr, T))
    if not isinstance(v, StructV) or v.ty != "Location":
        raise Unsupported("conversion of %s does not build a Location" % variant)
    return I.deref(v.f[0]), I.deref(v.f[1])


def run_display(I, disp, source, loc):
    sd = StructV("SourceDisplay", {"source": source, "location": StructV("Location", {0: loc[0], 1: loc[1]}), "source_path": NONE, "underlined": mkbool(T)})
    slices = []

    def on_slice(g, s, a, b, e):
        num = None
        try:
            sc = I._cur_scope
        except AttributeError:
            sc = None
        slices.append((g, a, b))
    I.on_slice = on_slice
    written = []
    I.on_write = lambda g, v: written.append((g, v)) if SP.is_str(v) else None
    ev0 = len(I.ctx.events)
    I.call_fn(disp, T, [OPQ], self_val=sd)
    I.on_slice = None
    I.on_write = None
    I.last_written = written
    return slices, I.ctx.events[ev0:]


def symbolic_text(ctx, L, tag="T"):
    c = ctx.c
    n = ctx.fresh_int(tag + ".len", 0, L)
    bs = []
    for k in range(L):
        sel = ctx.fresh_int("%s[%d]" % (tag, k), 0, len(ALPHABET) - 1)
        bs.append(V.mkint({ALPHABET[j]: g for j, g in cases_of(sel).items()}))
    pre = []
    for k in range(L):
        inr = int_lt(k, n)
        lead = int_eq(bs[k], 0xC3)
        cont = int_eq(bs[k], 0xA9)
        nxt_cont = c.and2(int_lt(k + 1, n), int_eq(bs[k + 1], 0xA9)) if k + 1 < L else F
        prev_lead = int_eq(bs[k - 1], 0xC3) if k > 0 else F
        pre.append(c.implies(c.and2(inr, lead), nxt_cont))
        pre.append(c.implies(c.and2(inr, cont), prev_lead))
    return SP.StrA(bs, n), pre


def build(L, kind):
    prog, disp, conv = load()
    ctx = V.set_ctx(V.Ctx(Circuit(), U=L + 3))
    c = ctx.c
    I = mk_interp(prog, ctx, L)
    Tx, pre = symbolic_text(ctx, L)
    ev0 = len(ctx.events)
    W = I.deref(I.call_fn(prog.fns["whipe_comments"], T, [Tx.clone()]))
    W = SP.as_str(W)
    warr, wlo, whi = W.base()
    wlen = SP.sub(whi, wlo)
    goals = []
    ev_w = ctx.events[ev0:]
    goals += [("no-panic: whipe_comments: " + msg, -g) for g, k, msg in ev_w if k == "panic"]
    bound = [g for g, k, msg in ev_w if k == "bound"]

    def wbyte(k):
        return SP.byte_abs(warr, SP.add(wlo, k))

    def blank(b):
        return c.or_(SP.beq(b, 32), SP.beq(b, 10), SP.beq(b, 13))
    # offsets
    goals.append(("offsets: len(whipe_comments(T)) <= len(T)", SP.le(wlen, Tx.n)))
    for k in range(L):
        wb = wbyte(k)
        goals.append(("offsets: a non-blank byte of the wiped text sits at the same offset in T (offset %d)" % k,
                      c.implies(c.and2(int_lt(k, wlen), -SP.beq(wb, 32)), c.and2(int_lt(k, Tx.n), int_eq(wb, Tx.bytes[k])))))
    # the location
    if kind == "span":
        l = ctx.fresh_int("loc.l", 0, L)
        r = ctx.fresh_int("loc.r", 0, L)
        pre += [int_lt(l, r), SP.le(r, wlen)]
        bl, br1 = wbyte(l), wbyte(SP.sub(r, 1))
        pre += [-blank(bl), -blank(br1), SP.boundary(W, l), SP.boundary(W, r)]
        loc = (l, r)
        if "UnrecognizedToken" in conv:
            loc = eval_conv(I, conv, "UnrecognizedToken", {"token": (l, OPQ, r), "expected": OPQ})
    elif kind == "eof":
        loc = eval_conv(I, conv, "UnrecognizedEof", {"location": wlen, "expected": OPQ})
    elif kind == "invalid":
        p = ctx.fresh_int("loc.p", 0, L)
        pre += [int_lt(p, wlen), -blank(wbyte(p)), SP.boundary(W, p)]
        loc = eval_conv(I, conv, "InvalidToken", {"location": p})
    else:
        raise ValueError(kind)
    slices, ev = run_display(I, disp, Tx, loc)
    goals += [("no-panic: %s" % msg, -g) for g, k, msg in ev if k == "panic"]
    bound += [g for g, k, msg in ev if k == "bound"]
    # complete lines of T
    tb = Tx.bytes

    def t_at(k):
        return SP.byte_abs(Tx, k)
    for i, (g, a, b) in enumerate(slices):
        prev_nl = c.orl([c.and2(int_eq(a, k), int_eq(tb[k - 1], 10)) for k in range(1, L + 1)])
        starts = c.or2(int_eq(a, 0), prev_nl)
        at_end = int_eq(b, Tx.n)
        nl_here = c.orl([c.and_(int_eq(b, k), int_lt(k, Tx.n), int_eq(tb[k], 10)) for k in range(L)])
        crnl_here = c.orl([c.and_(int_eq(b, k), int_lt(k + 1, Tx.n), int_eq(tb[k], 13), int_eq(tb[k + 1], 10)) for k in range(L - 1)])
        no_nl_inside = c.andl([-c.and_(SP.le(a, k), int_lt(k, b), int_eq(tb[k], 10)) for k in range(L)])
        goals.append(("lines: printed slice %d starts at a line start of T" % i, c.implies(g, starts)))
        goals.append(("lines: printed slice %d ends at a line end of T" % i, c.implies(g, c.or_(at_end, nl_here, crnl_here))))
        goals.append(("lines: printed slice %d contains no line break" % i, c.implies(g, no_nl_inside)))
    lstart = loc[0]
    covered = c.orl([c.and_(g, SP.le(a, lstart), SP.le(lstart, b)) for g, a, b in slices])
    goals.append(("contains: some printed line contains the start of the location", covered))
    cover = [("a comment is wiped", c.orl([c.and_(int_lt(k, wlen), SP.beq(wbyte(k), 32), -int_eq(tb[k], 32)) for k in range(L)])),
             ("the text has two lines and the location is on the second", c.orl([c.and_(g, -int_eq(a, 0)) for g, a, b in slices]))]
    info = {"text": Tx, "wiped": W, "loc": loc, "slices": slices}
    return ctx, pre + [-x for x in bound], goals, cover, info


def decode(c, mdl, info):
    def val(x):
        if isinstance(x, int):
            return x
        for k, g in cases_of(x).items():
            if c.evaluate([g], mdl)[0]:
                return k
        return 0
    Tx = info["text"]
    n = val(Tx.n)
    text = bytes(val(b) for b in Tx.bytes[:n])
    return {"text_hex": text.hex(), "text": text.decode("utf-8", "replace"), "location": [val(info["loc"][0]), val(info["loc"][1])]}


# ---------------------------------------------------------------------------------------------
# native side: the real functions compiled into a scratch crate
def extract_item(src, start_pat):
    m = re.search(start_pat, src, re.M)
    if not m:
        raise P.Inconclusive("cannot find %s" % start_pat)
    i = src.index("{", m.start())
    depth = 0
    for j in range(i, len(src)):
        if src[j] == "{":
            depth += 1
        elif src[j] == "}":
            depth -= 1
            if depth == 0:
                return src[m.start():j + 1]
    raise P.Inconclusive("unbalanced braces after %s" % start_pat)


def native_build(scratch):
    d = os.path.join(scratch, "c11_native")
    os.makedirs(os.path.join(d, "src"), exist_ok=True)
    gu = open(os.path.join(P.REPO, "eqlog/src/grammar_util.rs")).read()
    bu = open(os.path.join(P.REPO, "eqlog/src/build.rs")).read()
    loc_struct = re.search(r"(#\[derive[^\]]*\]\s*)?pub struct Location\([^;]*;", gu).group(0)
    loc_impl = extract_item(gu, r"^impl Location")
    whipe = extract_item(bu, r"^fn whipe_comments")
    main = r'''
#![allow(dead_code, unused_imports)]
mod grammar_util {
    use std::cmp::{max, min};
    %s
    %s
}
mod source_display { include!("%s"); }
%s
fn unhex(s: &str) -> Vec<u8> { (0..s.len() / 2).map(|i| u8::from_str_radix(&s[2 * i..2 * i + 2], 16).unwrap()).collect() }
fn main() {
    let a: Vec<String> = std::env::args().collect();
    let input = std::fs::read_to_string(&a[1]).unwrap();
    std::panic::set_hook(Box::new(|_| {}));
    for line in input.lines() {
        let w: Vec<&str> = line.split_whitespace().collect();
        let text = String::from_utf8(unhex(w[0])).unwrap();
        let t1 = text.clone();
        let wiped = match std::panic::catch_unwind(move || whipe_comments(&t1)) {
            Ok(w) => w,
            Err(_) => { println!("- wpanic -"); continue; }
        };
        let l: usize = w[1].parse().unwrap();
        let r: usize = w[2].parse().unwrap();
        let t2 = text.clone();
        let out = std::panic::catch_unwind(move || {
            let sd = source_display::SourceDisplay { underlined: true, ..source_display::SourceDisplay::new(&t2, grammar_util::Location(l, r)) };
            format!("{}", sd)
        });
        let hexs = |s: &str| s.bytes().map(|b| format!("{:02x}", b)).collect::<String>();
        match out {
            Ok(s) => println!("{} ok {}", hexs(&wiped), hexs(&s)),
            Err(_) => println!("{} panic -", hexs(&wiped)),
        }
    }
}
''' % (loc_struct, loc_impl, os.path.join(P.REPO, "eqlog/src/source_display.rs"), whipe)
    open(os.path.join(d, "src", "main.rs"), "w").write(main)
    open(os.path.join(d, "Cargo.toml"), "w").write('[package]\nname = "c11-native"\nversion = "0.0.0"\nedition = "2021"\n\n[workspace]\n\n[dependencies]\nitertools = "*"\n')
    lock = os.path.join(P.REPO, "Cargo.lock")
    if os.path.exists(lock):
        import shutil
        shutil.copy(lock, os.path.join(d, "Cargo.lock"))
    env = dict(os.environ, CARGO_NET_OFFLINE="true", CARGO_TARGET_DIR=os.path.join(d, "target"))
    p = subprocess.run(["cargo", "build", "--offline", "-q"], cwd=d, env=env, capture_output=True, text=True)
    if p.returncode != 0:
        os.remove(os.path.join(d, "Cargo.lock")) if os.path.exists(os.path.join(d, "Cargo.lock")) else None
        p = subprocess.run(["cargo", "build", "--offline", "-q"], cwd=d, env=env, capture_output=True, text=True)
    if p.returncode != 0:
        raise P.Inconclusive("native diagnostics driver does not build: " + p.stderr[-1500:])
    return os.path.join(d, "target", "debug", "c11-native")


def native_run(exe, scratch, cases):
    """cases: [(text bytes, l, r)] -> [(wiped bytes, 'ok'|'panic', output bytes)]"""
    path = os.path.join(scratch, "c11_in.%d.txt" % os.getpid())
    open(path, "w").write("".join("%s %d %d\n" % (t.hex() or "", l, r) if t else "- %d %d\n" % (l, r) for t, l, r in cases))
    p = subprocess.run([exe, path], capture_output=True, text=True, timeout=300)
    os.unlink(path)
    out = []
    for line in p.stdout.strip().split("\n"):
        w = line.split()
        if len(w) < 3:
            w = [""] + w if len(w) == 2 else w
        out.append((bytes.fromhex(w[0]) if w[0] != "-" else b"", w[1], bytes.fromhex(w[2]) if w[2] != "-" else b""))
    return out


def property_on_native(text, loc, wiped, status, output):
    """evaluates the property on the native result; returns a list of problems"""
    problems = []
    if status == "wpanic":
        return ["whipe_comments panics on this text"]
    for k, b in enumerate(wiped):
        if b != 32 and (k >= len(text) or text[k] != b):
            problems.append("whipe_comments moves byte %d (%r): the parser's offsets are not offsets of the input" % (k, chr(b)))
            break
    if len(wiped) > len(text):
        problems.append("whipe_comments makes the text longer")
    if status == "panic":
        problems.append("SourceDisplay::fmt panics for location %s" % (loc,))
        return problems
    s = output.decode("utf-8", "replace")
    lines_t = []
    pos = 0
    tt = text.decode("utf-8")
    for ln in tt.split("\n"):
        lines_t.append((pos, ln[:-1] if ln.endswith("\r") and pos + len(ln.encode()) < len(text) else ln))
        pos += len(ln.encode()) + 1
    shown = re.findall(r"^ *(\d+) \| (.*)$", s, re.M)
    shown = [(int(n), body) for n, body in shown]
    covered = False
    for n, body in shown:
        if not (1 <= n <= len(lines_t)) or lines_t[n - 1][1] != body:
            problems.append("excerpt line %d %r is not line %d of the input" % (n, body, n))
        else:
            a = lines_t[n - 1][0]
            b = a + len(body.encode())
            if a <= loc[0] <= b:
                covered = True
    if not shown:
        problems.append("the excerpt shows no line")
    elif not covered and not problems:
        problems.append("no excerpt line contains the reported position %d" % loc[0])
    return problems


def candidate_locations(wiped):
    n = len(wiped)
    out = [("eof", n, n + 1)]
    ws = (32, 10, 13)
    def bd(k):
        return k == 0 or k == n or (wiped[k] & 0xC0) != 0x80
    for p in range(n):
        if wiped[p] not in ws and bd(p):
            out.append(("invalid", p, p + 1))
    for l in range(n):
        for r in range(l + 1, n + 1):
            if wiped[l] not in ws and wiped[r - 1] not in ws and bd(l) and bd(r):
                out.append(("span", l, r))
    return out


def validate(exe, scratch, L, seed, n):
    """tool validation: interpreter (concrete) vs native on random texts: wiped text, panic status and printed slices"""
    prog, disp, conv = load()
    rng = random.Random(seed)
    cases = []
    for _ in range(n):
        ln = rng.randint(0, L)
        bs = []
        while len(bs) < ln:
            b = rng.choice(ALPHABET[:5] + [0xC3])
            if b == 0xC3:
                if len(bs) + 2 <= ln:
                    bs += [0xC3, 0xA9]
                continue
            bs.append(b)
        text = bytes(bs)
        cases.append(text)
    # native wiped texts first (locations depend on them)
    nat_w = native_run(exe, scratch, [(t, 0, 1) for t in cases])
    jobs = []
    for t, (w, st0, _) in zip(cases, nat_w):
        if st0 == "wpanic":
            jobs.append((t, 0, 1))
            continue
        locs = candidate_locations(w)
        kind, l, r = rng.choice(locs)
        jobs.append((t, l, r))
    nat = native_run(exe, scratch, jobs)
    bad = []
    for (t, l, r), (w, status, output) in zip(jobs, nat):
        ctx = V.set_ctx(V.Ctx(Circuit(), U=L + 3))
        I = mk_interp(prog, ctx, L)
        src = SP.StrA(list(t) + [0] * (L - len(t)), len(t))
        ev0 = len(ctx.events)
        W = SP.as_str(I.deref(I.call_fn(prog.fns["whipe_comments"], T, [src.clone()])))
        wp = [m for g, k, m in ctx.events[ev0:] if g == T and k == "panic"]
        if wp or status == "wpanic":
            if bool(wp) != (status == "wpanic"):
                bad.append({"text": t.hex(), "what": "whipe_comments panic status", "native": status, "interpreter": wp[:2]})
            continue
        arr, lo, hi = W.base()
        mine_w = bytes(arr.bytes[lo:hi]) if all(isinstance(x, int) for x in arr.bytes[lo:hi]) else None
        try:
            slices, ev = run_display(I, disp, src, (l, r))
        except Unsupported as ex:
            if not [m for g, k, m in ctx.events[ev0:] if g == T and k == "panic"]:
                bad.append({"text": t.hex(), "loc": [l, r], "what": "interpreter: %s" % ex})
                continue
            slices = []
        panics = [m for g, k, m in ctx.events[ev0:] if g == T and k == "panic"]
        mine_status = "panic" if panics else "ok"
        if mine_w != w:
            bad.append({"text": t.hex(), "what": "whipe_comments", "native": w.hex(), "interpreter": mine_w.hex() if mine_w is not None else None})
            continue
        if mine_status != status:
            bad.append({"text": t.hex(), "loc": [l, r], "what": "panic status", "native": status, "interpreter": mine_status, "events": panics[:2]})
            continue
        if status == "ok":
            shown = re.findall(r"^ *\d+ \| (.*)$", output.decode("utf-8", "replace"), re.M)
            mine = []
            for g, v in I.last_written:
                if g != T:
                    continue
                arr, lo, hi = SP.as_str(v).base()
                mine.append(bytes(arr.bytes[lo:hi]).decode("utf-8", "replace"))
            if shown != mine:
                bad.append({"text": t.hex(), "loc": [l, r], "what": "printed lines", "native": shown, "interpreter": mine})
    return bad


def run_case(task):
    P.limit_memory(24)
    t0 = time.time()
    res = dict(task)
    try:
        ctx, pre, goals, cover, info = build(task["L"], task["kind"])
        c = ctx.c
        res["goals"] = len(goals)
        res["nodes"] = c.n
        res["encode_s"] = round(time.time() - t0, 1)
        t1 = time.time()
        failing, inputs = [], []
        excluded = set()
        q = 0
        while q < 6:
            live = [(lab, l) for lab, l in goals if lab not in excluded]
            bad = c.orl([-l for _, l in live])
            r, mdl = terms.solve(c, ctx.assumes + pre + [bad], solver=task["solver"], timeout_s=task["timeout"])
            q += 1
            if r == "unsat":
                break
            vals = c.evaluate([l for _, l in live], mdl)
            f = [lab for (lab, _), v in zip(live, vals) if not v]
            if not f:
                raise P.Inconclusive("solver model falsifies no goal")
            failing += f
            excluded.update(f)
            inputs.append(dict(decode(c, mdl, info), failing=f[:4]))
        res["queries"] = q
        res["failing"] = failing
        res["inputs"] = inputs
        res["status"] = "failed" if failing else "proved"
        res["cover"] = {}
        for lab, l in cover:
            rc, _ = terms.solve(c, ctx.assumes + pre + [l], solver=task["solver"], timeout_s=task["timeout"])
            res["queries"] += 1
            res["cover"][lab] = (rc == "sat")
        res["solve_s"] = round(time.time() - t1, 1)
    except (Unsupported, terms.SolverError, P.Inconclusive, MemoryError) as ex:
        res["status"] = "inconclusive"
        res["reason"] = "%s: %s" % (type(ex).__name__, ex)
    except Exception:
        import traceback
        res["status"] = "inconclusive"
        res["reason"] = traceback.format_exc()[-1500:]
    res["wall_s"] = round(time.time() - t0, 1)
    return res


def classify(problems):
    """role of a natively confirmed problem (for the known-findings file)"""
    roles = set()
    for p in problems:
        if "panics" in p:
            roles.add("display-panic")
        elif "whipe_comments" in p:
            roles.add("offset-drift")
        else:
            roles.add("wrong-excerpt")
    return roles


def main():
    tier = sys.argv[1]
    seed = int(os.environ.get("VERIF_SEED", "1"))
    t0 = time.time()
    scratch = P.scratch_dir()
    P.ensure_rsdump()
    solver = os.environ.get("VERIF_SOLVER", "kissat")
    Ls = [4, 5] if tier == "quick" else [4, 5, 6, 7]
    tasks = [{"L": L, "kind": k, "solver": solver, "timeout": 300 if tier == "quick" else 3000} for L in Ls for k in ("span", "eof", "invalid")]
    import multiprocessing as mp
    with mp.get_context("fork").Pool(min(12, len(tasks)), maxtasksperchild=1) as pool:
        results = pool.map(run_case, tasks, chunksize=1)
    inconc = [r for r in results if r["status"] == "inconclusive"]
    val_bad = []
    violations, known_hits, unconfirmed = [], [], []
    known = [k for k in P.load_known() if k["property"] == "C11"]
    try:
        exe = native_build(scratch)
        try:
            val_bad = validate(exe, scratch, 6, seed, 150 if tier == "quick" else 1500)
        except Unsupported as ex:
            inconc.append({"L": 0, "kind": "validation", "reason": "Unsupported: %s" % ex})
        for r in results:
            if r["status"] != "failed":
                continue
            for inp in r["inputs"]:
                text = bytes.fromhex(inp["text_hex"])
                l, rr = inp["location"]
                (w, status, output), = native_run(exe, scratch, [(text, l, rr)])
                probs = property_on_native(text, (l, rr), w, status, output)
                if not probs:
                    unconfirmed.append((r, inp))
                    continue
                roles = classify(probs)
                kn = [k for k in known if k.get("role") in roles]
                rest = roles - set(k.get("role") for k in kn)
                rec = {"L": r["L"], "kind": r["kind"], "input": inp, "observed_natively": probs[:3], "roles": sorted(roles)}
                if rest:
                    violations.append(rec)
                for k in kn:
                    known_hits.append((k, rec))
    except P.Inconclusive as ex:
        inconc.append({"L": 0, "kind": "native", "reason": str(ex)})
    wall = time.time() - t0
    replay = None
    if violations:
        os.makedirs(os.path.join(P.VERIF, "evidence", "replays"), exist_ok=True)
        replay = os.path.join(P.VERIF, "evidence", "replays", "C11.json")
        json.dump([dict(v, how="format SourceDisplay { source: <text>, location: Location(l, r), underlined: true } (eqlog/src/source_display.rs) "
                               "and run whipe_comments (eqlog/src/build.rs) on the text given as hex; gensym/check_c11.py builds exactly that driver") for v in violations[:10]],
                  open(replay, "w"), indent=1)
    cov = {
        "explanation": __doc__,
        "functions_encoded": ["eqlog/src/build.rs::whipe_comments", "eqlog/src/source_display.rs::line_locations / intersecting_line_locations / <SourceDisplay as Display>::fmt",
                              "eqlog/src/grammar_util.rs::Location::{is_empty,intersect}", "eqlog/src/error.rs: location expressions of From<ParseError>"],
        "bounds": {"text length (bytes)": Ls, "alphabet": "a / space \\n \\r e-acute(2 bytes), well-formed UTF-8", "location kinds": ["span", "eof", "invalid"]},
        "cases": len(results), "cases_proved": sum(1 for r in results if r["status"] == "proved"),
        "obligations": sum(r.get("goals", 0) for r in results),
        "solver_queries": sum(r.get("queries", 0) for r in results),
        "solver_time_s": round(sum(r.get("solve_s", 0) for r in results), 1),
        "encode_time_s": round(sum(r.get("encode_s", 0) for r in results), 1),
        "max_circuit_nodes": max([r.get("nodes", 0) for r in results] + [0]),
        "vacuity_witnesses": {lab: any(r.get("cover", {}).get(lab) for r in results) for r0 in results for lab in r0.get("cover", {})},
        "translator_validation": {"random_texts": 150 if tier == "quick" else 1500, "mismatches": len(val_bad)},
        "samples": [{k: r.get(k) for k in ("L", "kind", "goals", "nodes", "status", "wall_s")} for r in results[:4]],
        "known_findings_hit": [{"id": k["id"], "input": rec["input"], "observed": rec["observed_natively"][:2]} for k, rec in known_hits][:8],
        "inconclusive": [{k: r.get(k) for k in ("L", "kind", "reason")} for r in inconc][:6],
        "unconfirmed": [json.dumps(inp)[:300] for r, inp in unconfirmed][:6],
    }
    P.write_evidence("C11", tier, seed, "other", cov,
                     ["lalrpop lexer / parser: token spans are non-empty ranges of non-blank chars on char boundaries inside the wiped text; the EOF location is its length",
                      "semantic-check locations are spans of the same kind", "str / String built-ins of the executor (validated against std by the composition test on random texts)",
                      "formatting itself (write!) is not modelled"], wall, len(violations))
    seen = set()
    for k, rec in known_hits:
        if k["id"] in seen:
            continue
        seen.add(k["id"])
        print("KNOWN-FINDING: property=C11 %s [%s] e.g. text=%r location=%s" % (k["what"], k["id"], rec["input"]["text"], rec["input"]["location"]))
    if violations:
        print("VIOLATION property=C11 replay=%s" % replay)
        for v in violations[:5]:
            print("  L=%d %s: text=%r location=%s: %s" % (v["L"], v["kind"], v["input"]["text"], v["input"]["location"], v["observed_natively"][:2]))
        sys.exit(1)
    vac = [lab for lab, ok in cov["vacuity_witnesses"].items() if not ok]
    for b in val_bad[:3]:
        print("INCONCLUSIVE: interpreter and native code disagree: %s" % json.dumps(b)[:500])
    for r in inconc[:6]:
        print("INCONCLUSIVE: L=%s %s: %s" % (r.get("L"), r.get("kind"), str(r.get("reason"))[:800]))
    for r, inp in unconfirmed[:5]:
        print("INCONCLUSIVE: a goal fails in the encoding but the native code satisfies the property on %s" % json.dumps(inp)[:300])
    for lab in vac:
        print("INCONCLUSIVE: vacuity witness unreachable: " + lab)
    if val_bad or inconc or unconfirmed or vac:
        sys.exit(2)
    print("OK property=C11 tier=%s cases=%d obligations=%d wall=%.0fs" % (tier, len(results), cov["obligations"], wall))


def _guarded_main():
    """an internal error of the machinery is never a verdict: exit 2 (inconclusive), not a traceback with exit 1"""
    try:
        main()
    except SystemExit:
        raise
    except BaseException:
        import traceback
        print("INCONCLUSIVE: internal error of the check: " + traceback.format_exc()[-1500:])
        sys.exit(2)


if __name__ == "__main__":
    _guarded_main()
