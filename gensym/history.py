"""API histories: the script language shared with the native driver, executed by the interpreter
(concretely, for translator validation and replay comparison; symbolically, for history queries)."""
import re
from terms import T, F, Circuit
import values as V
from values import mkbool, NativeFn, Unsupported, OptV, EnumV, BoolV, IterV, lit, UNDEF
from interp import Interp, ty_name
import model as M
import native as N


class Runner:
    """executes script lines against an interpreted model"""

    def __init__(self, su, U, cap=None, loop_bound=None, opaque_weights=False, iter_bound=12):
        self.su = su
        self.ctx = V.set_ctx(V.Ctx(Circuit(), U=U, cap=cap))
        self.ctx.opaque_weights = opaque_weights
        self.ctx.compact_k = None
        self.I = Interp(su.prog, self.ctx, loop_bound=iter_bound)
        self.sch = M.Schema(su.prog)
        self.m = self.I.call_fn(su.prog.methods[(self.sch.model, "new")], T, [])
        self.events = []

    def call(self, name, args, g=T):
        item = self.su.prog.methods[(self.sch.model, name)]
        return self.I.call_fn(item, g, args, self_val=self.m)

    def parse_args(self, name, words):
        item = self.su.prog.methods[(self.sch.model, name)]
        args = []
        pos = 0
        for inp in item["sig"]["inputs"][1:]:
            tn = ty_name(inp["ty"])
            if tn in self.su.prog.enums:
                vname = words[pos]
                v = [x for x in self.su.prog.enums[tn] if x["name"] == vname][0]
                n = len(v["fields"]["fields"]) if v["fields"]["k"] == "Unnamed" else 0
                args.append(EnumV(tn, {vname: (T, tuple(int(x) for x in words[pos + 1:pos + 1 + n]))}))
                pos += 1 + n
            else:
                args.append(int(words[pos]))
                pos += 1
        return args

    def run_line(self, line):
        w = line.split()
        if not w:
            return
        if w[0] == "dump":
            self.events.append(("dump", "dump", N.canonical_dump(self.sch, self.m)))
            return
        if w[0] == "close":
            self.call("close", [])
            self.events.append(("ret", "unit"))
            return
        if w[0] == "close_until":
            n = int(w[1])
            cnt = [0]

            def cond(I_, g, args):
                c = cnt[0]
                cnt[0] += 1
                self.events.append(("dump", "cond %d" % c, N.canonical_dump(self.sch, self.m)))
                return mkbool(T if c == n else F)
            r = self.call("close_until", [NativeFn(cond, "cond")])
            self.events.append(("ret", fmt_ret(r)))
            return
        r = self.call(w[0], self.parse_args(w[0], w[1:]))
        self.events.append(("ret", fmt_ret(r)))


def fmt_ret(r):
    """normalised rendering of a concrete return value: the list of integers / keywords it contains"""
    if r == () or r is None or r is UNDEF:
        return "unit"
    if isinstance(r, BoolV):
        return "true" if r.l == T else "false"
    if isinstance(r, int):
        return str(r)
    if isinstance(r, OptV):
        return "None" if r.some == F else "Some(%s)" % fmt_ret(r.val)
    if isinstance(r, tuple):
        return "(" + ", ".join(fmt_ret(x) for x in r) + ")"
    if isinstance(r, IterV):
        return "[" + ", ".join(fmt_ret(x) for g, x in r.items if g == T) + "]"
    if isinstance(r, EnumV):
        live = [(k, p) for k, (g, p) in r.alts.items() if g == T]
        k, p = live[0]
        return "%s(%s)" % (k, ", ".join(fmt_ret(x) for x in p)) if p else k
    raise Unsupported("cannot render return value %r" % (r,))


def normalise_native_ret(s, newtypes=None):
    """strip newtype wrappers from a Debug-printed native return value: P(3) -> 3"""
    s = s.strip()
    if s == "unit" or s == "()":
        return "unit"
    prev = None
    while prev != s:
        prev = s
        s = re.sub(r"\b([A-Z][A-Za-z0-9]*)\((\d+)\)", lambda m: m.group(2) if (newtypes is None and m.group(1) != "Some") or (newtypes is not None and m.group(1) in newtypes) else m.group(0), s)
    return s


def compare(sch, native_events, interp_events):
    """None if the two event lists agree, else a description of the first difference"""
    if len(native_events) != len(interp_events):
        return "different number of events: native %d, interpreter %d" % (len(native_events), len(interp_events))
    for i, (a, b) in enumerate(zip(native_events, interp_events)):
        if a[0] != b[0]:
            return "event %d: kinds differ %s / %s" % (i, a[0], b[0])
        if a[0] == "ret":
            nt = set(sch.prog.newtypes)
            if normalise_native_ret(a[1], nt) != b[1]:
                return "event %d: return values differ: native %s, interpreter %s" % (i, normalise_native_ret(a[1], nt), b[1])
        else:
            na = N.canonical_native(sch, a[2])
            for k in b[2]:
                if na.get(k) != b[2][k]:
                    return "event %d (%s): %s differs: native %r, interpreter %r" % (i, a[1], k, na.get(k), b[2][k])
    return None


# ---------------------------------------------------------------------------------------------
# symbolic histories: the witness finder.  `phases` is a list of ("calls", k) | ("close_until", K) | ("close", K)
class SymHistory:
    def __init__(self, su, U, phases, ctx=None):
        import lemmas as L
        self.su = su
        if ctx is None:
            self.ctx = V.set_ctx(V.Ctx(Circuit(), U=U))
            self.ctx.opaque_weights = False
            self.ctx.bv_weights = True
            self.ctx.dedupe_rows = True
            self.ctx.compact_k = U
        else:
            self.ctx = ctx         # a second history in the same query (self-composition)
        self.I = Interp(su.prog, self.ctx, loop_bound=U)
        self.sch = M.Schema(su.prog)
        self.c = self.ctx.c
        self.m = self.I.call_fn(su.prog.methods[(self.sch.model, "new")], T, [])
        self.st = M.State(self.sch, self.m)
        self.muts = [(n, it) for n, it in L.public_mutators(su, self.sch)]
        self.steps = []        # decoding info: ("call", sel, [(name, args)]) | ("close_until", [cond lits], ret, rv) | ("close",)
        self.obs = []          # observation points: (label, guard, kind) where kind in {"cond", "returned"}
        self.assume = []
        self.phases = phases

    def precreate(self, counts=None):
        """a symbolic number (0..U) of elements per plain type, created by guarded new_<type>() calls"""
        ctx, c = self.ctx, self.c
        pre = []
        for t in self.sch.types:
            item = self.su.prog.methods.get((self.sch.model, "new_" + t))
            if item is None or len(item["sig"]["inputs"]) != 1:
                continue          # enum types have no argument-less constructor
            n = counts[t] if counts is not None else ctx.fresh_int("pre.%s" % t, 0, ctx.U)
            for i in range(ctx.U):
                r = self.I.call_fn(item, V.int_lt(i, n), [], self_val=self.m)
                if getattr(self, "on_alt", None) is not None:
                    self.on_alt(V.int_lt(i, n), "new_" + t, [], r)
            pre.append((t, n))
        self.steps.append(("precreate", pre))

    def sym_call(self, idx):
        import lemmas as L
        ctx, c = self.ctx, self.c
        sel = ctx.fresh_int("h%d.sel" % idx, 0, len(self.muts))     # == len(muts): no-op
        alts = []
        for j, (name, item) in enumerate(self.muts):
            g = V.int_eq(sel, j)
            pre = []
            args = [L.symbolic_arg(ctx, self.sch, self.su, self.st, inp["ty"], "h%d.%s.arg%d" % (idx, name, i), pre)
                    for i, inp in enumerate(item["sig"]["inputs"][1:])]
            self.assume.append(c.implies(g, c.andl(pre)))
            r = self.I.call_fn(item, g, args, self_val=self.m)
            if getattr(self, "on_alt", None) is not None:
                self.on_alt(g, name, args, r)
            alts.append((name, args))
        self.steps.append(("call", sel, alts))

    def sym_close(self, K, early_allowed, on_cond, on_return, guard=T):
        ctx, c = self.ctx, self.c
        conds = []

        def cond(I_, g, args):
            b = ctx.fresh_bool("cond") if early_allowed else F
            conds.append((g, b))
            on_cond(g)
            return mkbool(b)
        self.I.loop_bounds["close_until"] = K
        r = self.I.call_fn(self.su.prog.methods[(self.sch.model, "close_until")], guard, [NativeFn(cond, "cond")], self_val=self.m)
        self.steps.append(("close_until", conds, r))
        on_return(lit(r))

    def decode(self, model):
        """script lines for a solver model"""
        c = self.c
        lines = []

        def val(x):
            if isinstance(x, int):
                return x
            for k, g in V.cases_of(x).items():
                if c.evaluate([g], model)[0]:
                    return k
            return 0

        def render(a):
            if isinstance(a, EnumV):
                for vn, (g, payload) in a.alts.items():
                    if c.evaluate([g], model)[0]:
                        return " ".join([vn] + [str(val(x)) for x in payload])
            return str(val(a))
        for st in self.steps:
            if st[0] == "precreate":
                for t, n in st[1]:
                    lines += ["new_" + t] * val(n)
            elif st[0] == "call":
                j = val(st[1])
                if j < len(st[2]):
                    name, args = st[2][j]
                    lines.append(" ".join([name] + [render(a) for a in args]))
            elif st[0] == "close_until":
                n = 0
                stop = None
                for g, b in st[1]:
                    if not c.evaluate([g], model)[0]:
                        continue
                    if b != F and c.evaluate([b], model)[0]:
                        stop = n
                        break
                    n += 1
                lines.append("close" if stop is None else "close_until %d" % stop)
        return lines
