"""Proof obligations (lemmas) over one generated module: each lemma executes real generated code from
an arbitrary symbolic state satisfying an invariant and produces goals to be shown unreachable."""
import itertools, os, sys, time
from terms import T, F, Circuit
import terms
import values as V
from values import mkbool, NativeFn, Unsupported, StructV, VecL, lit
from interp import Interp
from loader import load_program
import model as M
import sem as S
import ghost as G
from closure import run_loop_iteration, run_prologue

sys.path.insert(0, os.path.join(os.path.dirname(os.path.abspath(__file__)), "..", "corpus"))
import refsem

RUNTIME_FILES = ["eqlog-runtime/src/unification.rs"]


class Setup:
    def __init__(self, rs_path, eql_path, U, repo="/repo"):
        self.rs_path, self.eql_path, self.U = rs_path, eql_path, U
        self.prog = load_program([rs_path] + [os.path.join(repo, f) for f in RUNTIME_FILES])
        self.theory, self.rules = refsem.reference(open(eql_path).read())

    def fresh(self):
        ctx = V.set_ctx(V.Ctx(Circuit(), U=self.U))
        ctx.compact_k = self.U
        I = Interp(self.prog, ctx, loop_bound=self.U)
        sch = M.Schema(self.prog)
        return ctx, I, sch


class Goal:
    def __init__(self, name, assume, goal_items, cover=None):
        self.name = name
        self.assume = assume          # list of literals
        self.items = goal_items       # [(label, literal)] : each must hold under the assumptions
        self.cover = cover or []      # [(label, literal)] : each must be reachable under the assumptions (vacuity)


def inv_delta(st, delta):
    """pending definitions mention allocated elements only; tuple and equality lists are drained"""
    c = V.CTX.c
    out = []
    if delta is None:
        return out
    for name, lst in delta.f.items():
        if name.endswith("_def"):
            rel = st.s.rels[name[len("new_"):-len("_def")]]
            for g, e in lst.items():
                for t, x in zip(rel.types, e):
                    out.append(("delta.%s%s allocated" % (name, list(e) if all(isinstance(y, int) for y in e) else "[..]"),
                                c.implies(g, st.in_range(t, x))))
        else:
            out.append(("delta.%s drained" % name, lst.is_empty()))
    return out


def inv_loop(st, delta, rules):
    return (M.inv_unionfind(st) + M.inv_struct(st, canon=True) + M.inv_no_uprooted(st) + M.inv_age(st)
            + inv_delta(st, delta) + S.inv_sn(st, delta, rules, canonical=True))


def _families(st):
    """index fields grouped by what a public query can tell apart: relation, diagonal, order, own/all -- not the age"""
    # the tuple set of a relation is read off its full new and old index; that the other copies agree with it is INV-struct (C04)
    return {rel.name: [rel.full("new"), rel.full("old")] for rel in st.s.rels.values()}


def observable_snapshot(st):
    """what a `condition: impl Fn(&Self) -> bool` can see through the public queries: for every index family the union of
    its new and old copy, the representative of every element, and the number of elements (ages and path compression
    are not observable)"""
    c = V.CTX.c
    U = V.CTX.U
    snap = {}
    for key, ixs in _families(st).items():
        cells = {}
        for ix in ixs:
            for t, l in st.table(ix.field).cells.items():
                cells[t] = c.or2(cells.get(t, F), l)
        snap[key] = cells
    for t in st.s.types:
        snap["uf." + t] = ([st.root_of(t, i, U) for i in range(U)], st.nelems(t))
    return snap


def same_observable(st, snap):
    c = V.CTX.c
    cur = observable_snapshot(st)
    out = T
    for key in _families(st):
        a, b = cur[key], snap[key]
        for t in set(a) | set(b):
            out = c.and2(out, c.iff(a.get(t, F), b.get(t, F)))
    for t in st.s.types:
        r1, n1 = cur["uf." + t]
        r0, n0 = snap["uf." + t]
        out = c.and2(out, V.int_eq(n1, n0))
        for i, (a, b) in enumerate(zip(r1, r0)):
            out = c.and2(out, c.implies(V.int_lt(i, n0), V.int_eq(a, b)))
    return out


def events_split(ctx, start=0):
    c = ctx.c
    ev = ctx.events[start:]
    panic = [(msg, g) for g, k, msg in ev if k == "panic"]
    bound = c.orl([g for g, k, _ in ev if k == "bound"])
    compact = [(msg, g) for g, k, msg in ev if k == "compact"]
    return panic, bound, compact


def has_defs(rules):
    """does the reference semantics of the program contain a `!` (non-surjective) then-statement?"""
    return any(concl[0] == "def" for _, paths in rules for _, concl, _ in S.stages(paths))


def progress_snapshot(st):
    """what the ranking function of C06 looks at: roots, allocated lengths, old tables, the empty-join flag"""
    U = V.CTX.U
    snap = {"len": {t: st.nelems(t) for t in st.s.types},
            "roots": {(t, i): st.is_root(t, i) for t in st.s.types for i in range(U)},
            "old": {}, "flag": lit(st.o.f["empty_join_is_dirty"])}
    for rel in st.s.rels.values():
        base = rel.full("old")
        for row in M.rows_of(rel, U):
            snap["old"][(rel.name, row)] = st.table(base.field).cell(base.project(row))
    return snap


def progress_goals(st, snap0, cont, label):
    """C06 for `!`-free programs: no element is allocated, no class is created, and an iteration that goes round the
    loop again strictly decreases the lexicographic measure (set of roots, set of tuples not yet old, empty-join flag)"""
    c = V.CTX.c
    snap1 = progress_snapshot(st)
    goals = []
    for t in st.s.types:
        goals.append(("%s.noalloc: no element of %s is allocated" % (label, t), V.int_eq(snap1["len"][t], snap0["len"][t])))
    sub = T
    strict = F
    for k, r0 in snap0["roots"].items():
        r1 = snap1["roots"][k]
        goals.append(("%s.noalloc: no new class %s" % (label, list(k)), c.implies(r1, r0)))
        sub = c.and2(sub, c.implies(r1, r0))
        strict = c.or2(strict, c.and2(r0, -r1))
    if cont is None:
        return goals
    same_roots = c.and2(sub, -strict)
    osub = T
    ostrict = F
    for k, o0 in snap0["old"].items():
        o1 = snap1["old"][k]
        osub = c.and2(osub, c.implies(o0, o1))
        ostrict = c.or2(ostrict, c.and2(o1, -o0))
    same_old = c.and2(osub, -ostrict)
    dec = c.or_(strict, c.and_(same_roots, osub, ostrict), c.and_(same_roots, same_old, snap0["flag"], -snap1["flag"]))
    goals.append(("%s.progress: an iteration that continues decreases (roots, tuples not yet old, empty-join flag)" % label, c.implies(cont, dec)))
    return goals


def no_pending_defs(delta):
    c = V.CTX.c
    return c.andl([lst.is_empty() for name, lst in delta.f.items() if name.endswith("_def")])


def dirty_exact_goals(I, su, sch, m, st, label):
    """is_dirty() <=> some new table holds a tuple, or an element is uprooted, or the empty-join flag is set"""
    c = V.CTX.c
    d = lit(I.deref(I.call_fn(su.prog.methods[(sch.model, "is_dirty")], T, [], self_val=m)))
    want = lit(st.o.f["empty_join_is_dirty"])
    for t in sch.types:
        want = c.or2(want, -st.o.f[t + "_uprooted"].is_empty())
    for rel in sch.rels.values():
        base = rel.full("new")
        for row in M.rows_of(rel, V.CTX.U):
            want = c.or2(want, st.table(base.field).cell(base.project(row)))
    return [("%s.dirty-exact: is_dirty() iff a new tuple, an uprooted element or the empty-join flag exists" % label, c.iff(d, want))]


def lemma_step(su):
    """one iteration of the close_until loop from an arbitrary loop-head state"""
    ctx, I, sch = su.fresh()
    c = ctx.c
    m = M.arbitrary_state(I, sch, uprooted_slots=0)
    d = M.arbitrary_delta(I, sch)
    st = M.State(sch, m)
    pre = inv_loop(st, d, su.rules)
    conds = []
    at_cond = []
    surj = not has_defs(su.rules)
    snap0 = progress_snapshot(st) if surj else None
    dirty0 = dirty_exact_goals(I, su, sch, m, st, "step") if surj else []
    nodefs0 = no_pending_defs(d)
    enum0 = M.conj(inv_enum(su, st))
    gh, hom = G.Ghost(ctx, sch), G.Hom(ctx, sch)
    hom0 = G.pre_lit(st, gh, hom, d, su.rules)
    hlen0 = {t: st.nelems(t) for t in sch.types}

    def cond(I_, g, args):
        b = ctx.fresh_bool("cond")
        conds.append((g, b, observable_snapshot(st)))
        # C04: the structural invariants hold whenever the condition is evaluated
        at_cond.append((g, M.inv_unionfind(st) + M.inv_struct(st, canon=True) + M.inv_no_uprooted(st)))
        return mkbool(b)

    ret, rv = run_loop_iteration(I, sch, m, d, cond)
    rvl = lit(rv) if ret != F else F
    panic, bound, compact = events_split(ctx)
    post_loop = inv_loop(st, d, su.rules)
    goals = []
    cont = -ret
    goals += [("step.continue: " + lab, c.implies(cont, l)) for lab, l in post_loop]
    # exit (return false): closed model
    ex = c.and2(ret, -rvl)
    goals += [("step.exit: " + lab, c.implies(ex, l)) for lab, l in S.closed(st, su.rules)]
    goals += [("step.exit: " + lab, c.implies(ex, l)) for lab, l in M.inv_unionfind(st) + M.inv_struct(st, canon=True) + M.inv_no_uprooted(st)]
    # the state close() leaves behind: loop-head invariant with nothing pending, and not dirty (precondition of the idempotence lemma, C03)
    goals += [("step.exit-state: " + lab, c.implies(ex, l)) for lab, l in inv_loop(st, None, su.rules)]
    goals += [("step.exit-state: nothing pending", c.implies(ex, no_pending_defs(d)))]
    goals += [("step.exit-state: not dirty", c.implies(ex, -lit(I.deref(I.call_fn(su.prog.methods[(sch.model, "is_dirty")], T, [], self_val=m)))))]
    # early return (return true): resumable state = loop-head invariant with no pending definitions
    early = c.and2(ret, rvl)
    goals += [("step.early: " + lab, c.implies(early, l)) for lab, l in inv_loop(st, None, su.rules)]
    for g, items in at_cond:
        goals += [("step.at-cond: " + lab, c.implies(g, l)) for lab, l in items]
    # C07 contract: `true` is returned only in the state in which the condition just evaluated to true,
    # `false` only in a state in which it just evaluated to false (and which is closed, above)
    goals.append(("step.contract: return true only right after the condition held",
                  c.implies(early, c.orl([c.and_(g, b, same_observable(st, snap)) for g, b, snap in conds]))))
    goals.append(("step.contract: return false only right after the condition failed",
                  c.implies(ex, c.orl([c.and_(g, -b, same_observable(st, snap)) for g, b, snap in conds]))))
    goals += [("step.no-panic: " + msg, -g) for msg, g in panic]
    goals += [("step.compaction-bound: " + msg, -g) for msg, g in compact]
    if surj:
        # C06: in a program without `!` nothing is ever pending (part of the loop invariant of these programs only)
        c06 = dirty0 + progress_goals(st, snap0, cont, "step")
        c06.append(("step.noalloc: no definition is pending after an iteration", c.implies(cont, no_pending_defs(d))))
        goals += [(lab, c.implies(nodefs0, l)) for lab, l in c06]
    goals += enum_goals(su, st, enum0, "step: ")
    goals += G.post_goals(st, gh, hom, d, hlen0, hom0, "step: ", require_generated=True)
    cover = [("continue", cont), ("exit", ex), ("early", early), ("hom: a model N and a homomorphism exist while an iteration continues", c.and2(hom0, cont))]
    return ctx, Goal("step", ctx.assumes + [M.conj(pre), -bound], goals, cover)


def literal_snapshot(st):
    """every table cell, representative and length (ages included): used for `nothing changes`"""
    U = V.CTX.U
    snap = {"cells": {}, "roots": {}, "len": {}}
    for rel in st.s.rels.values():
        for ix in rel.indices:
            snap["cells"][ix.field] = dict(st.table(ix.field).cells)
    for t in st.s.types:
        snap["roots"][t] = [st.root_of(t, i, U) for i in range(U)]
        snap["len"][t] = st.nelems(t)
    snap["flag"] = lit(st.o.f["empty_join_is_dirty"])
    return snap


def lemma_idem(su):
    """C03 (idempotence): close() on a model as close() leaves it -- loop-head invariant, nothing pending, not dirty --
    returns in its first iteration and changes no table, no representative and allocates nothing"""
    ctx, I, sch = su.fresh()
    c = ctx.c
    U = ctx.U
    m = M.arbitrary_state(I, sch, uprooted_slots=0)
    st = M.State(sch, m)
    empty_delta = StructV("ModelDelta", {n: VecL() for n in sch.delta_fields})
    pre = inv_loop(st, empty_delta, su.rules)
    dirty0 = lit(I.deref(I.call_fn(su.prog.methods[(sch.model, "is_dirty")], T, [], self_val=m)))
    snap0 = literal_snapshot(st)
    nconds = [0]

    def cond(I_, g, args):
        nconds[0] += 1
        return mkbool(F)           # close() = close_until(|_| false)
    ret0, rv0 = run_prologue(I, sch, m, cond)
    d = StructV("ModelDelta", {n: VecL() for n in sch.delta_fields})
    ret, rv = run_loop_iteration(I, sch, m, d, cond)
    panic, bound, compact = events_split(ctx)
    snap1 = literal_snapshot(st)
    goals = [("idem: close() returns in its first iteration", c.and2(ret, -(lit(rv) if ret != F else F)))]
    for fld, cells0 in snap0["cells"].items():
        cells1 = snap1["cells"][fld]
        for t in sorted(set(cells0) | set(cells1)):
            goals.append(("idem: table %s%s unchanged" % (fld, list(t)), c.iff(cells0.get(t, F), cells1.get(t, F))))
    for t in sch.types:
        goals.append(("idem: no %s element is allocated" % t, V.int_eq(snap1["len"][t], snap0["len"][t])))
        for i in range(U):
            goals.append(("idem: representative of %s[%d] unchanged" % (t, i), c.implies(V.int_lt(i, snap0["len"][t]), V.int_eq(snap1["roots"][t][i], snap0["roots"][t][i]))))
    goals += [("idem: no panic: " + msg, -g) for msg, g in panic]
    goals += [("idem: compaction-bound: " + msg, -g) for msg, g in compact]
    return ctx, Goal("idem", ctx.assumes + [M.conj(pre), -dirty0, -bound], goals, [])


def inv_stale_listed(st):
    """between closes: every non-root element that still occurs in a row is recorded in `uprooted`"""
    c = V.CTX.c
    U = V.CTX.U
    out = []
    listed = {}
    for t in st.s.types:
        for i in range(U):
            listed[(t, i)] = c.orl([c.and2(g, V.int_eq(x, i)) for g, x in st.o.f[t + "_uprooted"].items()])
    for rel in st.s.user_rels():
        for row in M.rows_of(rel, U):
            h = st.rel_holds(rel.name, row)
            if h == F:
                continue
            for col, t in enumerate(rel.types):
                out.append(("stale.%s%s.col%d listed" % (rel.name, list(row), col),
                            c.implies(c.and2(h, -st.is_root(t, row[col])), listed[(t, row[col])])))
    for t in st.s.types:
        for g, x in st.o.f[t + "_uprooted"].items():
            out.append(("stale.%s_uprooted allocated" % t, c.implies(g, st.in_range(t, x))))
    return out


def inv_age_api(st):
    c = V.CTX.c
    U = V.CTX.U
    out = []
    for rel in st.s.user_rels():
        base = rel.full("old")
        for row in M.rows_of(rel, U):
            h = st.table(base.field).cell(base.project(row))
            if h == F:
                continue
            for col, t in enumerate(rel.types):
                ts = st.s.rels[t].full("old")
                out.append(("age.%s%s.col%d" % (rel.name, list(row), col),
                            c.implies(c.and2(h, st.is_root(t, row[col])), st.table(ts.field).cell((row[col],)))))
    return out


def inv_api(st, rules):
    return (M.inv_unionfind(st) + M.inv_struct(st, canon=False) + inv_stale_listed(st) + inv_age_api(st)
            + S.inv_sn(st, None, rules, canonical=False))


def lemma_prologue(su):
    """close_until's prologue (canonicalize; recompute; first condition) from an arbitrary between-closes state"""
    ctx, I, sch = su.fresh()
    c = ctx.c
    m = M.arbitrary_state(I, sch)
    st = M.State(sch, m)
    pre = inv_api(st, su.rules)
    at_cond = []
    surj = not has_defs(su.rules)
    snap0 = progress_snapshot(st) if surj else None
    enum0 = M.conj(inv_enum(su, st))
    gh, hom = G.Ghost(ctx, sch), G.Hom(ctx, sch)
    hom0 = G.pre_lit(st, gh, hom, None, su.rules)
    hlen0 = {t: st.nelems(t) for t in sch.types}

    def cond(I_, g, args):
        at_cond.append((g, M.inv_unionfind(st) + M.inv_struct(st, canon=True) + M.inv_no_uprooted(st)))
        return mkbool(ctx.fresh_bool("cond"))

    ret, rv = run_prologue(I, sch, m, cond)
    panic, bound, compact = events_split(ctx)
    empty_delta = StructV("ModelDelta", {n: VecL() for n in sch.delta_fields})
    goals = [("prologue: " + lab, l) for lab, l in inv_loop(st, empty_delta, su.rules)]
    for g, items in at_cond:
        goals += [("prologue.at-cond: " + lab, c.implies(g, l)) for lab, l in items]
    goals += [("prologue.no-panic: " + msg, -g) for msg, g in panic]
    goals += [("prologue.compaction-bound: " + msg, -g) for msg, g in compact]
    # a return out of the prologue obeys the same contract as a return out of the loop (C07 / C01): `false` only from a closed
    # state, `true` only right after the condition held
    if ret != F:
        rvl = lit(rv)
        exq = c.and2(ret, -rvl)
        goals += [("prologue.exit: " + lab, c.implies(exq, l)) for lab, l in S.closed(st, su.rules)]
        goals.append(("prologue.contract: return false only in a state that is not dirty", c.implies(exq, -lit(I.deref(I.call_fn(su.prog.methods[(sch.model, "is_dirty")], T, [], self_val=m))))))
        goals.append(("prologue.contract: return true only right after the condition held", c.implies(c.and2(ret, rvl), c.orl([g for g, _ in at_cond]))))
    if surj:
        goals += progress_goals(st, snap0, None, "prologue")
    goals += enum_goals(su, st, enum0, "prologue: ")
    goals += G.post_goals(st, gh, hom, None, hlen0, hom0, "prologue: ")
    if len(at_cond) != 1:
        raise Unsupported("close_until prologue evaluates the condition %d times" % len(at_cond))
    cover = [("some element was uprooted", -M.conj(M.inv_no_uprooted(M.State(sch, m))) if False else T)]
    return ctx, Goal("prologue", ctx.assumes + [M.conj(pre), -bound], goals, [])


def public_mutators(su, sch):
    out = []
    for (ty, name), item in su.prog.methods.items():
        if ty != sch.model or item["vis"] != "pub":
            continue
        inputs = item["sig"]["inputs"]
        if not inputs or inputs[0]["k"] != "SelfArg" or not inputs[0]["mut"]:
            continue
        if name in ("close", "close_until"):
            continue
        out.append((name, item))
    return sorted(out, key=lambda x: x[0])


def symbolic_arg(ctx, sch, su, st, ty, tag, pre):
    """a symbolic argument of a declared parameter type; appends allocation preconditions to `pre`"""
    from interp import ty_name
    tn = ty_name(ty)
    sn = M.snake(tn)
    if sn in sch.types:
        x = ctx.fresh_int(tag, 0, ctx.U - 1)
        pre.append(st.in_range(sn, x))
        return x
    if tn in su.prog.enums:
        variants = su.prog.enums[tn]
        sel = ctx.fresh_int(tag + ".variant", 0, len(variants) - 1)
        alts = {}
        for i, v in enumerate(variants):
            payload = []
            if v["fields"]["k"] == "Unnamed":
                for j, fdecl in enumerate(v["fields"]["fields"]):
                    payload.append(symbolic_arg(ctx, sch, su, st, fdecl["ty"], "%s.%s.%d" % (tag, v["name"], j), pre))
            alts[v["name"]] = (V.int_eq(sel, i), tuple(payload))
        return V.EnumV(tn, alts)
    raise Unsupported("public API parameter of type %s" % tn)


def asserted_in_ghost(su, sch, st, gh, hom, name, args):
    """literal: the ghost model N satisfies, under h, the fact that the public call `name(args)` asserts"""
    c = V.CTX.c
    for pfx in ("insert_", "define_", "equate_", "new_"):
        if name.startswith(pfx):
            kind, rel = pfx[:-1], name[len(pfx):]
            break
    else:
        raise Unsupported("public mutator %s: what does it assert?" % name)
    if kind == "new" and not args:
        # a new element can be interpreted in N iff N has an element of that type
        return c.orl([gh.exists(rel, v) for v in range(V.CTX.U)])
    if kind == "new":
        # new_<enum>(case): the constructor term is defined in N
        case = args[0]
        ets = enum_types(su, sch)
        out = T
        for vn, (g, payload) in case.alts.items():
            R = dict(ets[rel][1])[vn]
            out = c.and2(out, c.implies(g, G.defined_sym(gh, hom, R, list(payload))))
        return out
    if kind == "equate":
        return G.same_image(hom, rel, args[0], args[1])
    R = sch.rels[rel]
    if kind == "insert":
        return G.img_sym(gh, hom, R, args)
    if kind == "define":
        return G.defined_sym(gh, hom, R, args)
    raise Unsupported(name)


def lemma_api(su, name):
    """one public mutator from an arbitrary between-closes state preserves the between-closes invariant"""
    ctx, I, sch = su.fresh()
    c = ctx.c
    m = M.arbitrary_state(I, sch)
    st = M.State(sch, m)
    pre = [M.conj(inv_api(st, su.rules))]
    enum0 = M.conj(inv_enum(su, st))
    item = su.prog.methods[(sch.model, name)]
    args = []
    for i, inp in enumerate(item["sig"]["inputs"][1:]):
        args.append(symbolic_arg(ctx, sch, su, st, inp["ty"], "arg%d" % i, pre))
    gh, hom = G.Ghost(ctx, sch), G.Hom(ctx, sch)
    hom0 = c.and2(G.pre_lit(st, gh, hom, None, su.rules), asserted_in_ghost(su, sch, st, gh, hom, name, args))
    hlen0 = {t: st.nelems(t) for t in sch.types}
    r = I.call_fn(item, T, args, self_val=m)
    panic, bound, compact = events_split(ctx)
    goals = [("api.%s: %s" % (name, lab), l) for lab, l in inv_api(st, su.rules)]
    goals += enum_goals(su, st, enum0, "api.%s: " % name)
    goals += G.post_goals(st, gh, hom, None, hlen0, hom0, "api.%s: " % name)
    goals += [("api.%s.no-panic: %s" % (name, msg), -g) for msg, g in panic]
    goals += [("api.%s.compaction-bound: %s" % (name, msg), -g) for msg, g in compact]
    return ctx, Goal("api." + name, ctx.assumes + pre + [-bound], goals, [])


def lemma_new(su):
    ctx, I, sch = su.fresh()
    m = I.call_fn(su.prog.methods[(sch.model, "new")], T, [])
    st = M.State(sch, m)
    goals = [("new: " + lab, l) for lab, l in inv_api(st, su.rules)]
    goals += enum_goals(su, st, T, "new: ")
    gh, hom = G.Ghost(ctx, sch), G.Hom(ctx, sch)
    goals += [("new: " + lab, l) for lab, _, l in G.hom_items(st, gh, hom, None)]
    panic, bound, compact = events_split(ctx)
    goals += [("new.no-panic: " + msg, -g) for msg, g in panic]
    return ctx, Goal("new", ctx.assumes + [-bound], goals, [])


def all_lemmas(su):
    ctx, I, sch = su.fresh()
    out = [("new", lambda: lemma_new(su)), ("prologue", lambda: lemma_prologue(su)), ("step", lambda: lemma_step(su))]
    for name, _ in public_mutators(su, sch):
        out.append(("api." + name, (lambda n: (lambda: lemma_api(su, n)))(name)))
        out.append(("effects." + name, (lambda n: (lambda: lemma_api_effects(su, n)))(name)))
    out.append(("idem", lambda: lemma_idem(su)))
    out.append(("queries", lambda: lemma_queries(su)))
    if enum_types(su, sch):
        out.append(("enum", lambda: lemma_enum(su)))
    out.append(("uf", lambda: lemma_uf(su)))
    return out


# ---------------------------------------------------------------------------------------------
# C05 / C04: functional post-conditions of the public API, decided on the real generated query functions
def eq_matrix(st, t):
    """{(x, y): literal 'x and y are allocated and in the same class'} by chasing the symbolic forest"""
    c = V.CTX.c
    U = V.CTX.U
    r = {x: st.root_of(t, x, U) for x in range(U)}
    return {(x, y): c.and_(st.in_range(t, x), st.in_range(t, y), V.int_eq(r[x], r[y])) for x in range(U) for y in range(U)}


def call_query(I, su, sch, m, name, args):
    return I.deref(I.call_fn(su.prog.methods[(sch.model, name)], T, list(args), self_val=m))


def canonical_pre(st):
    """no equate_ since the last close: all rows canonical, nothing uprooted"""
    return M.conj(M.inv_struct(st, canon=True, check_elem_index=False) + M.inv_no_uprooted(st))


def lemma_api_effects(su, name, given=None):
    """functional post-conditions of one public mutator (C05).  `given` = (ctx, I, sch, model, canonical literal)
    runs the same body from a state reached by a symbolic history (witness search) instead of an arbitrary one."""
    from interp import ty_name
    if given is None:
        ctx, I, sch = su.fresh()
        m = M.arbitrary_state(I, sch)
        st = M.State(sch, m)
        pre = [M.conj(inv_api(st, su.rules))]
    else:
        ctx, I, sch, m = given[:4]
        st = M.State(sch, m)
        pre = []
    c = ctx.c
    U = ctx.U
    item = su.prog.methods[(sch.model, name)]
    args = [symbolic_arg(ctx, sch, su, st, inp["ty"], "final.arg%d" % i, pre) for i, inp in enumerate(item["sig"]["inputs"][1:])]
    eq0 = {t: eq_matrix(st, t) for t in sch.types}
    len0 = {t: st.nelems(t) for t in sch.types}
    roots0 = {t: [st.root_of(t, x, U) for x in range(U)] for t in sch.types}
    goals = []
    lab = "effects.%s: " % name
    kind = None
    rel = None
    for pfx in ("insert_", "define_", "equate_", "new_"):
        if name.startswith(pfx):
            kind, rel = pfx[:-1], name[len(pfx):]
    if kind == "new" and args:
        kind = "new_enum"          # new_<enum>(case) is a define_<constructor>: its contract is C15's
    if kind == "insert" and rel in sch.rels and not sch.rels[rel].is_typeset:
        R = sch.rels[rel]
        pre.append(canonical_pre(st))
        want = [roots0[t][0] if False else st.root_of(t, a, U) for t, a in zip(R.types, args)]
        want = [I.deref(w) for w in want]
    if kind == "define" and rel in sch.rels:
        R = sch.rels[rel]
        pre.append(canonical_pre(st))
        rargs = [st.root_of(t, a, U) for t, a in zip(R.types[:-1], args)]
        defined0 = {w: c.orl([c.and2(st.rel_holds(rel, row), c.andl([V.int_eq(x, y) for x, y in zip(rargs, row[:-1])])) for row in M.rows_of(R, U) if row[-1] == w]) for w in range(U)}
    ret = I.deref(I.call_fn(item, T, args, self_val=m))
    panic, bound, compact = events_split(ctx)
    eq1 = {t: eq_matrix(st, t) for t in sch.types}
    if kind == "equate":
        t = rel
        a, b = args
        for x in range(U):
            for y in range(U):
                ax = c.orl([c.and2(V.int_eq(a, z), eq0[t][(x, z)]) for z in range(U)])     # x ~ a
                bx = c.orl([c.and2(V.int_eq(b, z), eq0[t][(x, z)]) for z in range(U)])
                ay = c.orl([c.and2(V.int_eq(a, z), eq0[t][(z, y)]) for z in range(U)])
                by = c.orl([c.and2(V.int_eq(b, z), eq0[t][(z, y)]) for z in range(U)])
                gen = c.or_(eq0[t][(x, y)], c.and2(ax, by), c.and2(bx, ay))
                goals.append((lab + "are_equal(%d,%d) is the generated equivalence" % (x, y), c.iff(eq1[t][(x, y)], gen)))
    for t in sch.types:
        if kind == "equate" and t == rel:
            continue
        for x in range(U):
            for y in range(U):
                both_old = c.and2(V.int_lt(x, len0[t]), V.int_lt(y, len0[t]))
                goals.append((lab + "equality on %s unchanged for (%d,%d)" % (t, x, y), c.implies(both_old, c.iff(eq1[t][(x, y)], eq0[t][(x, y)]))))
    if kind not in ("new", "define", "new_enum"):
        for t in sch.types:
            goals.append((lab + "no element of %s is allocated" % t, V.int_eq(st.nelems(t), len0[t])))
    if kind == "new" and rel in sch.types:
        t = rel
        goals.append((lab + "returns the next id", V.int_eq(ret, len0[t])))
        goals.append((lab + "allocates exactly one element", V.int_eq(st.nelems(t), V.int_bin(lambda x, y: x + y, len0[t], 1))))
        for x in range(U):
            goals.append((lab + "the new element is distinct from %d" % x, c.implies(V.int_lt(x, len0[t]), -c.orl([c.and2(V.int_eq(ret, z), eq1[t][(x, z)]) for z in range(U)]))))
        # visible at once through iter_<type>
        it = I.to_iter(call_query(I, su, sch, m, "iter_" + t, []), T)
        goals.append((lab + "iter_%s yields the new element exactly once" % t, V.int_eq(V.count_lits([c.and2(g, V.int_eq(x, ret)) for g, x in it.items], cap=2), 1)))
    if kind == "insert" and rel in sch.rels and not sch.rels[rel].is_typeset:
        R = sch.rels[rel]
        if R.kind == "pred":
            q = call_query(I, su, sch, m, rel, args)
            goals.append((lab + "the predicate query reports the tuple at once", lit(q)))
        else:
            q = call_query(I, su, sch, m, rel, args[:-1])
            goals.append((lab + "the function is defined on the arguments at once", q.some))
        if (sch.model, "iter_" + rel) in su.prog.methods:       # nullary predicates have no iterator
            it = I.to_iter(call_query(I, su, sch, m, "iter_" + rel, []), T)
            cnt = V.count_lits([c.and2(g, c.andl([V.int_eq(I.deref(a), w) for a, w in zip((x if isinstance(x, tuple) else (x,)), want)])) for g, x in it.items], cap=2)
            goals.append((lab + "iter_%s yields the canonical tuple exactly once" % rel, V.int_eq(cnt, 1)))
    if kind == "define" and rel in sch.rels:
        t = R.types[-1]
        was = c.orl(list(defined0.values()))
        goals.append((lab + "returns an existing value when the function is defined", c.implies(was, c.orl([c.and2(defined0[w], V.int_eq(ret, w)) for w in range(U)]))))
        goals.append((lab + "allocates nothing when the function is defined", c.implies(was, V.int_eq(st.nelems(t), len0[t]))))
        goals.append((lab + "returns a fresh element otherwise", c.implies(-was, V.int_eq(ret, len0[t]))))
        goals.append((lab + "allocates exactly one element otherwise", c.implies(-was, V.int_eq(st.nelems(t), V.int_bin(lambda x, y: x + y, len0[t], 1)))))
        q = call_query(I, su, sch, m, rel, args)
        goals.append((lab + "afterwards the function evaluates to the returned element", c.and2(q.some, V.int_eq(st.root_of(t, q.val, U + 1), st.root_of(t, ret, U + 1)))))
        for t2 in sch.types:
            if t2 != t:
                goals.append((lab + "no element of %s is allocated" % t2, V.int_eq(st.nelems(t2), len0[t2])))
    goals += [(lab + "no panic: " + msg, -g) for msg, g in panic]
    g = Goal("effects." + name, ctx.assumes + pre + [-bound], goals, [])
    g.args = args
    return ctx, g


def lemma_queries(su):
    """query functions on an arbitrary between-closes state: root_ is an idempotent representative inside the class,
    are_equal_ is the relation of the union-find, identity on unallocated ids (C05); on canonical states the point
    queries, the iterators and equal arguments agree (C04)"""
    ctx, I, sch = su.fresh()
    c = ctx.c
    U = ctx.U
    m = M.arbitrary_state(I, sch)
    st = M.State(sch, m)
    pre = [M.conj(inv_api(st, su.rules))]
    goals = []
    for t in sch.types:
        eq = eq_matrix(st, t)
        x = ctx.fresh_int("q.%s.x" % t, 0, U)        # U itself: an id beyond every allocated element
        y = ctx.fresh_int("q.%s.y" % t, 0, U - 1)
        rx = call_query(I, su, sch, m, "root_" + t, [x])
        rrx = call_query(I, su, sch, m, "root_" + t, [rx])
        goals.append(("queries.root_%s: idempotent" % t, V.int_eq(rx, rrx)))
        goals.append(("queries.root_%s: identity on unallocated ids" % t, c.implies(-st.in_range(t, x), V.int_eq(rx, x))))
        goals.append(("queries.root_%s: representative inside the class" % t, c.implies(st.in_range(t, x), c.orl([c.and_(V.int_eq(x, a), V.int_eq(rx, b), eq[(a, b)]) for a in range(U) for b in range(U)]))))
        ae = call_query(I, su, sch, m, "are_equal_" + t, [x, y])
        goals.append(("queries.are_equal_%s: is the union-find relation" % t, c.implies(c.and2(st.in_range(t, x), st.in_range(t, y)), c.iff(lit(ae), c.orl([c.and_(V.int_eq(x, a), V.int_eq(y, b), eq[(a, b)]) for a in range(U) for b in range(U)])))))
    # canonical part (C04)
    canon = canonical_pre(st)
    for t in sch.types:
        it = I.to_iter(call_query(I, su, sch, m, "iter_" + t, []), T)
        for a in range(U):
            cnt = V.count_lits([c.and2(g, V.int_eq(x, a)) for g, x in it.items], cap=2)
            goals.append(("queries.canon.iter_%s: yields exactly the roots, once (%d)" % (t, a), c.implies(canon, V.int_eq(cnt, V.int_ite(st.is_root(t, a), 1, 0)))))
    for R in sch.user_rels():
        if (sch.model, "iter_" + R.name) not in su.prog.methods:
            if R.arity != 0:
                raise Unsupported("relation %s has no iter_ function" % R.name)
            q0 = lit(call_query(I, su, sch, m, R.name, []))
            goals.append(("queries.canon.%s: the nullary query reports the table" % R.name, c.implies(canon, c.iff(q0, st.rel_holds(R.name, ())))))
            continue
        it = I.to_iter(call_query(I, su, sch, m, "iter_" + R.name, []), T)
        rows = [(g, tuple(I.deref(z) for z in (x if isinstance(x, tuple) else (x,)))) for g, x in it.items]
        args = [ctx.fresh_int("q.%s.a%d" % (R.name, i), 0, U - 1) for i in range(R.arity)]
        args2 = [ctx.fresh_int("q.%s.b%d" % (R.name, i), 0, U - 1) for i in range(R.arity)]
        alloc = c.andl([c.and2(st.in_range(t, a), st.in_range(t, b)) for t, a, b in zip(R.types, args, args2)])
        same = c.andl([V.int_eq(st.root_of(t, a, U), st.root_of(t, b, U)) for t, a, b in zip(R.types, args, args2)])
        rargs = [st.root_of(t, a, U) for t, a in zip(R.types, args)]
        for row in M.rows_of(R, U):
            cnt = V.count_lits([g for g, x in rows if all(isinstance(z, int) for z in x) and tuple(x) == row], cap=2)
            goals.append(("queries.canon.iter_%s: yields %s exactly if it holds, once" % (R.name, list(row)), c.implies(canon, V.int_eq(cnt, V.int_ite(st.rel_holds(R.name, row), 1, 0)))))
        if R.kind == "pred":
            q1 = lit(call_query(I, su, sch, m, R.name, args))
            q2 = lit(call_query(I, su, sch, m, R.name, args2))
            goals.append(("queries.canon.%s: invariant under equal arguments" % R.name, c.implies(c.and_(canon, alloc, same), c.iff(q1, q2))))
            initer = c.orl([c.and2(g, c.andl([V.int_eq(z, w) for z, w in zip(x, rargs)])) for g, x in rows])
            goals.append(("queries.canon.%s: agrees with iter_%s" % (R.name, R.name), c.implies(c.and2(canon, alloc), c.iff(q1, initer))))
        elif R.kind == "func":
            q1 = call_query(I, su, sch, m, R.name, args[:-1])
            q2 = call_query(I, su, sch, m, R.name, args2[:-1])
            alloc1 = c.andl([c.and2(st.in_range(t, a), st.in_range(t, b)) for t, a, b in zip(R.types[:-1], args[:-1], args2[:-1])])
            same1 = c.andl([V.int_eq(st.root_of(t, a, U), st.root_of(t, b, U)) for t, a, b in zip(R.types[:-1], args[:-1], args2[:-1])])
            goals.append(("queries.canon.%s: definedness invariant under equal arguments" % R.name, c.implies(c.and_(canon, alloc1, same1), c.iff(q1.some, q2.some))))
            # the value returned is a row of the graph; if the graph is single-valued on the arguments it is *the* value
            isrow = c.orl([c.and2(g, c.andl([V.int_eq(z, w) for z, w in zip(x[:-1], rargs[:-1])] + [V.int_eq(x[-1], q1.val)])) for g, x in rows]) if q1.some != F else F
            anyrow = c.orl([c.and2(g, c.andl([V.int_eq(z, w) for z, w in zip(x[:-1], rargs[:-1])])) for g, x in rows])
            goals.append(("queries.canon.%s: Some(v) only for a row of iter_%s" % (R.name, R.name), c.implies(c.and_(canon, alloc1, q1.some), isrow)))
            goals.append(("queries.canon.%s: defined iff iter_%s has a row for the arguments" % (R.name, R.name), c.implies(c.and2(canon, alloc1), c.iff(q1.some, anyrow))))
    panic, bound, compact = events_split(ctx)
    goals += [("queries.no-panic: " + msg, -g) for msg, g in panic]
    return ctx, Goal("queries", ctx.assumes + pre + [-bound], goals, [])


# ---------------------------------------------------------------------------------------------
# C15: enum types
def enum_types(su, sch):
    """{type snake name: (Rust enum name, [(variant name, constructor relation)])} for every `<T>Case` enum of the module"""
    out = {}
    for en, variants in su.prog.enums.items():
        if not en.endswith("Case"):
            continue
        t = M.snake(en[:-4])
        if t not in sch.types:
            continue
        ctors = []
        for v in variants:
            rn = M.snake(v["name"])
            if rn not in sch.rels:
                raise Unsupported("enum variant %s::%s has no constructor relation" % (en, v["name"]))
            ctors.append((v["name"], sch.rels[rn]))
        out[t] = (en, ctors)
    return out


def inv_enum(su, st):
    """INV-enum: every allocated element of an enum type is, modulo the current equalities, the value of a constructor row"""
    c = V.CTX.c
    U = V.CTX.U
    out = []
    for t, (en, ctors) in sorted(enum_types(su, st.s).items()):
        roots = [st.root_of(t, i, U) for i in range(U)]
        for i in range(U):
            hit = F
            for vn, R in ctors:
                for row in M.rows_of(R, U):
                    h = st.rel_holds(R.name, row)
                    if h == F:
                        continue
                    hit = c.or2(hit, c.and2(h, V.int_eq(roots[row[-1]], roots[i])))
            out.append(("enum.%s[%d] is the value of a constructor" % (t, i), c.implies(st.in_range(t, i), hit)))
    return out


def enum_goals(su, st, pre_lit, label):
    c = V.CTX.c
    return [("%s%s" % (label, lab), c.implies(pre_lit, l)) for lab, l in inv_enum(su, st)]


def ctor_row_matches(st, R, payload, value_root, U):
    """literal: some row of constructor graph R has arguments equal (modulo roots) to `payload` and value with root `value_root`"""
    c = V.CTX.c
    out = F
    pr = [st.root_of(t, a, U) for t, a in zip(R.types[:-1], payload)]
    for row in M.rows_of(R, U):
        h = st.rel_holds(R.name, row)
        if h == F:
            continue
        same = c.andl([V.int_eq(st.root_of(t, x, U), p) for t, x, p in zip(R.types[:-1], row[:-1], pr)])
        out = c.or2(out, c.and_(h, same, V.int_eq(st.root_of(R.types[-1], row[-1], U), value_root)))
    return out


def lemma_enum(su, given=None):
    """C15 on the real query functions: under INV-enum on a canonical (closed) state <enum>_case(el) does not panic and returns a
    constructor and arguments whose application equals el, every item of <enum>_cases(el) does, and new_<enum>(c) followed by
    <enum>_cases contains c up to equality"""
    if given is None:
        ctx, I, sch = su.fresh()
        m = M.arbitrary_state(I, sch)
        st = M.State(sch, m)
        pre = [M.conj(inv_api(st, su.rules)), canonical_pre(st), M.conj(inv_enum(su, st))]
    else:
        ctx, I, sch, m = given[:4]
        st = M.State(sch, m)
        pre = []
    c = ctx.c
    U = ctx.U
    goals = []
    info = {}
    for t, (en, ctors) in sorted(enum_types(su, sch).items()):
        byname = dict(ctors)
        x = ctx.fresh_int("enum.%s.x" % t, 0, U - 1)
        pre.append(st.in_range(t, x))
        rx = st.root_of(t, x, U)
        ev0 = len(ctx.events)
        r = call_query(I, su, sch, m, t + "_case", [x])
        panic = [(msg, g) for g, k, msg in ctx.events[ev0:] if k == "panic"]
        goals += [("enumq.%s_case: no panic: %s" % (t, msg), -g) for msg, g in panic]
        if not isinstance(r, V.EnumV):
            raise Unsupported("%s_case does not return an enum value" % t)
        for vn, (g, payload) in r.alts.items():
            goals.append(("enumq.%s_case: the returned %s(..) applied to its arguments equals the element" % (t, vn),
                          c.implies(g, ctor_row_matches(st, byname[vn], payload, rx, U))))
        goals.append(("enumq.%s_case: returns some constructor" % t, c.orl([g for g, _ in r.alts.values()])))
        it = I.to_iter(call_query(I, su, sch, m, t + "_cases", [x]), T)
        for gi, item in it.items:
            item = I.deref(item)
            for vn, (g, payload) in item.alts.items():
                goals.append(("enumq.%s_cases: every yielded %s(..) applied to its arguments equals the element" % (t, vn),
                              c.implies(c.and2(gi, g), ctor_row_matches(st, byname[vn], payload, rx, U))))
        goals.append(("enumq.%s_cases: yields at least one case" % t, c.orl([gi for gi, _ in it.items])))
        info[t] = {"x": x}
    # new_<enum>(case) followed by <enum>_cases
    for t, (en, ctors) in sorted(enum_types(su, sch).items()):
        item = su.prog.methods.get((sch.model, "new_" + t))
        if item is None or len(item["sig"]["inputs"]) != 2:
            raise Unsupported("no new_%s(case) function" % t)
        case = symbolic_arg(ctx, sch, su, st, item["sig"]["inputs"][1]["ty"], "enum.%s.case" % t, pre)
        len0 = st.nelems(t)
        ev0 = len(ctx.events)
        ret = I.deref(I.call_fn(item, T, [case], self_val=m))
        panic = [(msg, g) for g, k, msg in ctx.events[ev0:] if k == "panic"]
        goals += [("enumq.new_%s: no panic: %s" % (t, msg), -g) for msg, g in panic]
        it = I.to_iter(call_query(I, su, sch, m, t + "_cases", [ret]), T)
        found = F
        for gi, itx in it.items:
            itx = I.deref(itx)
            for vn, (g, payload) in itx.alts.items():
                g0, p0 = case.alts[vn]
                R = dict(ctors)[vn]
                same = c.andl([V.int_eq(st.root_of(ty, a, U + 1), st.root_of(ty, b, U + 1)) for ty, a, b in zip(R.types[:-1], payload, p0)])
                found = c.or2(found, c.and_(gi, g, g0, same))
        goals.append(("enumq.new_%s: %s_cases of the result contains the case" % (t, t), found))
        goals.append(("enumq.new_%s: allocates at most one element" % t, -V.int_lt(V.int_bin(lambda a, b: a + b, len0, 1), st.nelems(t))))
        goals += enum_goals(su, st, T, "enumq.new_%s: " % t)
        info[t]["case"] = case
        info[t]["ret"] = ret
    panic, bound, compact = events_split(ctx)
    g = Goal("enum", ctx.assumes + pre + [-bound], goals, [])
    g.info = info
    return ctx, g


def lemma_uf(su):
    """the real unification.rs from an arbitrary valid parent forest (C05, union-find half)"""
    from values import StructV, VecA
    ctx, I, sch = su.fresh()
    c = ctx.c
    U = ctx.U
    n = ctx.fresh_int("uf.len", 0, U)
    parents = VecA([ctx.fresh_int("uf.par%d" % i, 0, U - 1) for i in range(U)], n, U)
    uf = StructV("Unification", {"parents": parents, "sizes": VecA(None, 0, U)})

    class St:      # minimal State-like view for inv_unionfind-style helpers
        pass

    def root_of(x):
        cur = x
        for _ in range(U):
            nxt = V.UNDEF
            for k, gk in V.cases_of(cur).items():
                if k < U:
                    nxt = V.merge(gk, parents.s[k], nxt)
            cur = nxt
        return cur
    pre = [-V.int_lt(U, n)]
    for i in range(U):
        inr = V.int_lt(i, n)
        pre.append(c.implies(inr, V.int_lt(parents.s[i], n)))
        r = root_of(i)
        pre.append(c.implies(inr, V.int_eq(r, V.merge(T, r, r)) if False else V.int_eq(root_of(r) if False else r, _step(parents, r, U))))
    roots0 = [root_of(i) for i in range(U)]
    x = ctx.fresh_int("uf.x", 0, U - 1)
    y = ctx.fresh_int("uf.y", 0, U - 1)
    pre += [V.int_lt(x, n), V.int_lt(y, n)]
    goals = []
    M_ = su.prog.methods
    rc = I.deref(I.call_fn(M_[("Unification", "root_const")], T, [x], self_val=uf))
    goals.append(("uf.root_const returns the root of the forest", c.orl([c.and2(V.int_eq(x, a), V.int_eq(rc, roots0[a])) for a in range(U)])))
    r = I.deref(I.call_fn(M_[("Unification", "root")], T, [x], self_val=uf))
    goals.append(("uf.root == root_const", V.int_eq(r, rc)))
    roots1 = [root_of(i) for i in range(U)]
    for a in range(U):
        goals.append(("uf.root (path compression) keeps the root of %d" % a, c.implies(V.int_lt(a, n), V.int_eq(roots1[a], roots0[a]))))
    # union of two distinct roots merges exactly their classes
    rx, ry = roots1_of(roots1, x, U), roots1_of(roots1, y, U)
    distinct = -V.int_eq(rx, ry)
    ev0 = len(ctx.events)
    I.call_fn(M_[("Unification", "union_roots_into")], distinct, [rx, ry], self_val=uf)
    roots2 = [root_of(i) for i in range(U)]
    for a in range(U):
        for b in range(U):
            same1 = V.int_eq(roots1[a], roots1[b])
            gen = c.or_(same1, c.and2(V.int_eq(roots1[a], rx), V.int_eq(roots1[b], ry)), c.and2(V.int_eq(roots1[a], ry), V.int_eq(roots1[b], rx)))
            goals.append(("uf.union_roots_into merges exactly the two classes (%d,%d)" % (a, b),
                          c.implies(c.and_(distinct, V.int_lt(a, n), V.int_lt(b, n)), c.iff(V.int_eq(roots2[a], roots2[b]), gen))))
    goals.append(("uf.union_roots_into makes the second argument the root", c.implies(distinct, V.int_eq(roots1_of(roots2, x, U), ry))))
    goals.append(("uf.len unchanged", V.int_eq(parents.n, n)))
    panic, bound, compact = events_split(ctx)
    goals += [("uf.no-panic: " + msg, -g) for msg, g in panic]
    return ctx, Goal("uf", ctx.assumes + pre + [-bound], goals, [("two classes are merged", distinct)])


def _step(parents, r, U):
    nxt = V.UNDEF
    for k, gk in V.cases_of(r).items():
        if k < U:
            nxt = V.merge(gk, parents.s[k], nxt)
    return nxt


def roots1_of(roots, x, U):
    r = V.UNDEF
    for k, gk in V.cases_of(x).items():
        if k < U:
            r = V.merge(gk, roots[k], r)
    return r
