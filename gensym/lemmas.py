"""Proof obligations (lemmas) over one generated module: each lemma executes real generated code from
an arbitrary symbolic state satisfying an invariant and produces goals to be shown unreachable."""
import itertools, os, sys, time
from terms import T, F, Circuit
import terms
import values as V
from values import mkbool, NativeFn, Unsupported, StructV, VecL, lit
from interp import Interp
from loader import load_program
import model as M
import sem as S
from closure import run_loop_iteration, run_prologue

sys.path.insert(0, os.path.join(os.path.dirname(os.path.abspath(__file__)), "..", "corpus"))
import refsem

RUNTIME_FILES = ["eqlog-runtime/src/unification.rs"]


class Setup:
    def __init__(self, rs_path, eql_path, U, repo="/repo"):
        self.rs_path, self.eql_path, self.U = rs_path, eql_path, U
        self.prog = load_program([rs_path] + [os.path.join(repo, f) for f in RUNTIME_FILES])
        self.theory, self.rules = refsem.reference(open(eql_path).read())

    def fresh(self):
        ctx = V.set_ctx(V.Ctx(Circuit(), U=self.U))
        ctx.compact_k = self.U
        I = Interp(self.prog, ctx, loop_bound=self.U)
        sch = M.Schema(self.prog)
        return ctx, I, sch


class Goal:
    def __init__(self, name, assume, goal_items, cover=None):
        self.name = name
        self.assume = assume          # list of literals
        self.items = goal_items       # [(label, literal)] : each must hold under the assumptions
        self.cover = cover or []      # [(label, literal)] : each must be reachable under the assumptions (vacuity)


def inv_delta(st, delta):
    """pending definitions mention allocated elements only; tuple and equality lists are drained"""
    c = V.CTX.c
    out = []
    if delta is None:
        return out
    for name, lst in delta.f.items():
        if name.endswith("_def"):
            rel = st.s.rels[name[len("new_"):-len("_def")]]
            for g, e in lst.items():
                for t, x in zip(rel.types, e):
                    out.append(("delta.%s%s allocated" % (name, list(e) if all(isinstance(y, int) for y in e) else "[..]"),
                                c.implies(g, st.in_range(t, x))))
        else:
            out.append(("delta.%s drained" % name, lst.is_empty()))
    return out


def inv_loop(st, delta, rules):
    return (M.inv_unionfind(st) + M.inv_struct(st, canon=True) + M.inv_no_uprooted(st) + M.inv_age(st)
            + inv_delta(st, delta) + S.inv_sn(st, delta, rules, canonical=True))


def observable_snapshot(st):
    """what the public queries can see: every index table, union-find parents and lengths"""
    snap = {}
    for rel in st.s.rels.values():
        for ix in rel.indices:
            snap[ix.field] = dict(st.table(ix.field).cells)
    for t in st.s.types:
        pv = st.uf(t).f["parents"]
        snap["uf." + t] = (list(pv.s), pv.n)
    return snap


def same_observable(st, snap):
    c = V.CTX.c
    out = T
    for rel in st.s.rels.values():
        for ix in rel.indices:
            cur = st.table(ix.field).cells
            old = snap[ix.field]
            for t in set(cur) | set(old):
                out = c.and2(out, c.iff(cur.get(t, F), old.get(t, F)))
    for t in st.s.types:
        pv = st.uf(t).f["parents"]
        s0, n0 = snap["uf." + t]
        out = c.and2(out, V.int_eq(pv.n, n0))
        for a, b in zip(pv.s, s0):
            if a is V.UNDEF or b is V.UNDEF:
                continue
            out = c.and2(out, V.int_eq(a, b))
    return out


def events_split(ctx, start=0):
    c = ctx.c
    ev = ctx.events[start:]
    panic = [(msg, g) for g, k, msg in ev if k == "panic"]
    bound = c.orl([g for g, k, _ in ev if k == "bound"])
    compact = [(msg, g) for g, k, msg in ev if k == "compact"]
    return panic, bound, compact


def lemma_step(su):
    """one iteration of the close_until loop from an arbitrary loop-head state"""
    ctx, I, sch = su.fresh()
    c = ctx.c
    m = M.arbitrary_state(I, sch, uprooted_slots=0)
    d = M.arbitrary_delta(I, sch)
    st = M.State(sch, m)
    pre = inv_loop(st, d, su.rules)
    conds = []
    at_cond = []

    def cond(I_, g, args):
        b = ctx.fresh_bool("cond")
        conds.append((g, b, observable_snapshot(st)))
        # C04: the structural invariants hold whenever the condition is evaluated
        at_cond.append((g, M.inv_unionfind(st) + M.inv_struct(st, canon=True) + M.inv_no_uprooted(st)))
        return mkbool(b)

    ret, rv = run_loop_iteration(I, sch, m, d, cond)
    rvl = lit(rv) if ret != F else F
    panic, bound, compact = events_split(ctx)
    post_loop = inv_loop(st, d, su.rules)
    goals = []
    cont = -ret
    goals += [("step.continue: " + lab, c.implies(cont, l)) for lab, l in post_loop]
    # exit (return false): closed model
    ex = c.and2(ret, -rvl)
    goals += [("step.exit: " + lab, c.implies(ex, l)) for lab, l in S.closed(st, su.rules)]
    goals += [("step.exit: " + lab, c.implies(ex, l)) for lab, l in M.inv_unionfind(st) + M.inv_struct(st, canon=True) + M.inv_no_uprooted(st)]
    # early return (return true): resumable state = loop-head invariant with no pending definitions
    early = c.and2(ret, rvl)
    goals += [("step.early: " + lab, c.implies(early, l)) for lab, l in inv_loop(st, None, su.rules)]
    for g, items in at_cond:
        goals += [("step.at-cond: " + lab, c.implies(g, l)) for lab, l in items]
    # C07 contract: `true` is returned only in the state in which the condition just evaluated to true,
    # `false` only in a state in which it just evaluated to false (and which is closed, above)
    goals.append(("step.contract: return true only right after the condition held",
                  c.implies(early, c.orl([c.and_(g, b, same_observable(st, snap)) for g, b, snap in conds]))))
    goals.append(("step.contract: return false only right after the condition failed",
                  c.implies(ex, c.orl([c.and_(g, -b, same_observable(st, snap)) for g, b, snap in conds]))))
    goals += [("step.no-panic: " + msg, -g) for msg, g in panic]
    goals += [("step.compaction-bound: " + msg, -g) for msg, g in compact]
    cover = [("continue", cont), ("exit", ex), ("early", early)]
    return ctx, Goal("step", ctx.assumes + [M.conj(pre), -bound], goals, cover)


def inv_stale_listed(st):
    """between closes: every non-root element that still occurs in a row is recorded in `uprooted`"""
    c = V.CTX.c
    U = V.CTX.U
    out = []
    listed = {}
    for t in st.s.types:
        for i in range(U):
            listed[(t, i)] = c.orl([c.and2(g, V.int_eq(x, i)) for g, x in st.o.f[t + "_uprooted"].items()])
    for rel in st.s.user_rels():
        for row in M.rows_of(rel, U):
            h = st.rel_holds(rel.name, row)
            if h == F:
                continue
            for col, t in enumerate(rel.types):
                out.append(("stale.%s%s.col%d listed" % (rel.name, list(row), col),
                            c.implies(c.and2(h, -st.is_root(t, row[col])), listed[(t, row[col])])))
    for t in st.s.types:
        for g, x in st.o.f[t + "_uprooted"].items():
            out.append(("stale.%s_uprooted allocated" % t, c.implies(g, st.in_range(t, x))))
    return out


def inv_age_api(st):
    c = V.CTX.c
    U = V.CTX.U
    out = []
    for rel in st.s.user_rels():
        base = rel.full("old")
        for row in M.rows_of(rel, U):
            h = st.table(base.field).cell(base.project(row))
            if h == F:
                continue
            for col, t in enumerate(rel.types):
                ts = st.s.rels[t].full("old")
                out.append(("age.%s%s.col%d" % (rel.name, list(row), col),
                            c.implies(c.and2(h, st.is_root(t, row[col])), st.table(ts.field).cell((row[col],)))))
    return out


def inv_api(st, rules):
    return (M.inv_unionfind(st) + M.inv_struct(st, canon=False) + inv_stale_listed(st) + inv_age_api(st)
            + S.inv_sn(st, None, rules, canonical=False))


def lemma_prologue(su):
    """close_until's prologue (canonicalize; recompute; first condition) from an arbitrary between-closes state"""
    ctx, I, sch = su.fresh()
    c = ctx.c
    m = M.arbitrary_state(I, sch)
    st = M.State(sch, m)
    pre = inv_api(st, su.rules)
    at_cond = []

    def cond(I_, g, args):
        at_cond.append((g, M.inv_unionfind(st) + M.inv_struct(st, canon=True) + M.inv_no_uprooted(st)))
        return mkbool(ctx.fresh_bool("cond"))

    ret, rv = run_prologue(I, sch, m, cond)
    panic, bound, compact = events_split(ctx)
    empty_delta = StructV("ModelDelta", {n: VecL() for n in sch.delta_fields})
    goals = [("prologue: " + lab, l) for lab, l in inv_loop(st, empty_delta, su.rules)]
    for g, items in at_cond:
        goals += [("prologue.at-cond: " + lab, c.implies(g, l)) for lab, l in items]
    goals += [("prologue.no-panic: " + msg, -g) for msg, g in panic]
    goals += [("prologue.compaction-bound: " + msg, -g) for msg, g in compact]
    if len(at_cond) != 1:
        raise Unsupported("close_until prologue evaluates the condition %d times" % len(at_cond))
    cover = [("some element was uprooted", -M.conj(M.inv_no_uprooted(M.State(sch, m))) if False else T)]
    return ctx, Goal("prologue", ctx.assumes + [M.conj(pre), -bound], goals, [])


def public_mutators(su, sch):
    out = []
    for (ty, name), item in su.prog.methods.items():
        if ty != sch.model or item["vis"] != "pub":
            continue
        inputs = item["sig"]["inputs"]
        if not inputs or inputs[0]["k"] != "SelfArg" or not inputs[0]["mut"]:
            continue
        if name in ("close", "close_until"):
            continue
        out.append((name, item))
    return sorted(out, key=lambda x: x[0])


def symbolic_arg(ctx, sch, su, st, ty, tag, pre):
    """a symbolic argument of a declared parameter type; appends allocation preconditions to `pre`"""
    from interp import ty_name
    tn = ty_name(ty)
    sn = M.snake(tn)
    if sn in sch.types:
        x = ctx.fresh_int(tag, 0, ctx.U - 1)
        pre.append(st.in_range(sn, x))
        return x
    if tn in su.prog.enums:
        variants = su.prog.enums[tn]
        sel = ctx.fresh_int(tag + ".variant", 0, len(variants) - 1)
        alts = {}
        for i, v in enumerate(variants):
            payload = []
            if v["fields"]["k"] == "Unnamed":
                for j, fdecl in enumerate(v["fields"]["fields"]):
                    payload.append(symbolic_arg(ctx, sch, su, st, fdecl["ty"], "%s.%s.%d" % (tag, v["name"], j), pre))
            alts[v["name"]] = (V.int_eq(sel, i), tuple(payload))
        return V.EnumV(tn, alts)
    raise Unsupported("public API parameter of type %s" % tn)


def lemma_api(su, name):
    """one public mutator from an arbitrary between-closes state preserves the between-closes invariant"""
    ctx, I, sch = su.fresh()
    c = ctx.c
    m = M.arbitrary_state(I, sch)
    st = M.State(sch, m)
    pre = [M.conj(inv_api(st, su.rules))]
    item = su.prog.methods[(sch.model, name)]
    args = []
    for i, inp in enumerate(item["sig"]["inputs"][1:]):
        args.append(symbolic_arg(ctx, sch, su, st, inp["ty"], "arg%d" % i, pre))
    r = I.call_fn(item, T, args, self_val=m)
    panic, bound, compact = events_split(ctx)
    goals = [("api.%s: %s" % (name, lab), l) for lab, l in inv_api(st, su.rules)]
    goals += [("api.%s.no-panic: %s" % (name, msg), -g) for msg, g in panic]
    goals += [("api.%s.compaction-bound: %s" % (name, msg), -g) for msg, g in compact]
    return ctx, Goal("api." + name, ctx.assumes + pre + [-bound], goals, [])


def lemma_new(su):
    ctx, I, sch = su.fresh()
    m = I.call_fn(su.prog.methods[(sch.model, "new")], T, [])
    st = M.State(sch, m)
    goals = [("new: " + lab, l) for lab, l in inv_api(st, su.rules)]
    panic, bound, compact = events_split(ctx)
    goals += [("new.no-panic: " + msg, -g) for msg, g in panic]
    return ctx, Goal("new", ctx.assumes + [-bound], goals, [])


def all_lemmas(su):
    ctx, I, sch = su.fresh()
    out = [("new", lambda: lemma_new(su)), ("prologue", lambda: lemma_prologue(su)), ("step", lambda: lemma_step(su))]
    for name, _ in public_mutators(su, sch):
        out.append(("api." + name, (lambda n: (lambda: lemma_api(su, n)))(name)))
    return out
