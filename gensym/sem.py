"""Reference rule semantics evaluated over symbolic model states (closedness, semi-naive invariant,
soundness w.r.t. a ghost reference model)."""
import itertools
from terms import T, F
import values as V
from values import int_eq, cases_of, Unsupported
from model import snake, State


def stages(paths):
    """[(premise atoms, conclusion atom, vartypes)] for every then-item of every path.  The premise of a
    then-item consists of all if-items before it plus the graph atom of every earlier `def` item."""
    out = []
    for items, tys in paths:
        prem = []
        for kind, a in items:
            if kind == "if":
                prem.append(a)
            else:
                out.append((list(prem), a, tys))
                if a[0] == "def":
                    prem.append(("rel", a[1], a[2] + [a[3]]))
    return out


def atom_vars(a):
    if a[0] == "rel":
        return list(a[2])
    if a[0] == "eq":
        return [a[1], a[2]]
    if a[0] == "type":
        return [a[1]]
    if a[0] == "def":
        return list(a[2])      # the value variable is existential
    return []


class Sem:
    def __init__(self, st, delta=None, canonical=True, own_only=False):
        self.own_only = own_only      # premises read the `_own` copies of member relations (C17: rule instances that rely on inherited tuples are left out)
        self.st = st
        self.delta = delta
        self.canonical = canonical
        self.c = V.CTX.c
        self.U = V.CTX.U
        self._root = {}

    def root(self, t, i):
        if self.canonical:
            return i
        k = (t, i)
        if k not in self._root:
            self._root[k] = self.st.root_of(t, i, self.U)
        return self._root[k]

    def rel(self, name):
        n = snake(name)
        if n not in self.st.s.rels:
            raise Unsupported("relation %s of the source program has no tables in the generated model" % name)
        return self.st.s.rels[n]

    def in_table(self, rel, row, ages, own=False):
        """literal: concrete row literally present (ages subset of new/old)"""
        c = self.c
        out = F
        for a in ages:
            ix = rel.full(a)
            if own:
                for jx in rel.indices:
                    if jx.age == a and jx.eqs is None and len(jx.order) == rel.arity and jx.suffix == "_own":
                        ix = jx
                        break
            out = c.or2(out, self.st.table(ix.field).cell(ix.project(row)))
        return out

    def holds_mod(self, rel, row):
        """literal: some row of new u old is equal to `row` modulo the current equalities"""
        c = self.c
        if self.canonical:
            return self.in_table(rel, row, ("new", "old"))
        want = [self.root(t, x) for t, x in zip(rel.types, row)]
        out = F
        for r2 in itertools.product(range(self.U), repeat=rel.arity):
            h = self.in_table(rel, r2, ("new", "old"))
            if h == F:
                continue
            same = c.andl([int_eq(self.root(t, y), w) for t, y, w in zip(rel.types, r2, want)])
            out = c.or2(out, c.and2(h, same))
        return out

    def equal(self, t, a, b):
        if self.canonical:
            return T if a == b else F
        return int_eq(self.root(t, a), self.root(t, b))

    def pending(self, f, args):
        """literal: a definition of f(args) is recorded in the delta's *_def list (modulo equalities)"""
        if self.delta is None:
            return F
        c = self.c
        rel = self.rel(f)
        lst = self.delta.f.get("new_%s_def" % rel.name)
        if lst is None:
            return F
        out = F
        for g, e in lst.items():
            same = c.andl([int_eq(self.st.root_of(t, x, self.U), self.root(t, a)) for t, x, a in zip(rel.types, e, args)])
            out = c.or2(out, c.and2(g, same))
        return out

    def premise(self, prem, sigma, ages, tys):
        c = self.c
        g = T
        for a in prem:
            if a[0] == "rel":
                rel = self.rel(a[1])
                g = c.and2(g, self.in_table(rel, tuple(sigma[v] for v in a[2]), ages, own=self.own_only))
            elif a[0] == "type":
                ts = self.st.s.rels[snake(a[2])]
                g = c.and2(g, self.in_table(ts, (sigma[a[1]],), ages))
            elif a[0] == "eq":
                g = c.and2(g, self.equal(snake(tys[a[1]]), sigma[a[1]], sigma[a[2]]))
            else:
                raise Unsupported("premise atom " + a[0])
            if g == F:
                return F
        return g

    def conclusion(self, a, sigma, tys, allow_pending):
        c = self.c
        if a[0] == "rel":
            rel = self.rel(a[1])
            return self.holds_mod(rel, tuple(sigma[v] for v in a[2]))
        if a[0] == "eq":
            return self.equal(snake(tys[a[1]]), sigma[a[1]], sigma[a[2]])
        if a[0] == "def":
            rel = self.rel(a[1])
            args = tuple(sigma[v] for v in a[2])
            out = F
            for w in range(self.U):
                out = c.or2(out, self.holds_mod(rel, args + (w,)))
            if allow_pending:
                out = c.or2(out, self.pending(a[1], args))
            return out
        raise Unsupported("conclusion atom " + a[0])

    def obligations(self, rules, ages, allow_pending, label):
        """[(label, literal)]: for every stage and assignment, premise (literally in tables of `ages`) => conclusion"""
        c = self.c
        out = []
        for rname, paths in rules:
            for k, (prem, concl, tys) in enumerate(stages(paths)):
                vs = []
                for a in prem + [concl]:
                    for v in atom_vars(a):
                        if v not in vs:
                            vs.append(v)
                for vals in itertools.product(range(self.U), repeat=len(vs)):
                    sigma = dict(zip(vs, vals))
                    p = self.premise(prem, sigma, ages, tys)
                    if not prem and ages == ("old",):
                        # the empty join counts as processed ("old") once empty_join_is_dirty has been reset
                        p = -V.lit(self.st.o.f["empty_join_is_dirty"])
                    if p == F:
                        continue
                    q = self.conclusion(concl, sigma, tys, allow_pending)
                    if q == T:
                        continue
                    out.append(("%s.%s:%s#%d%s" % (label, concl[0], rname, k, sigma), c.implies(p, q)))
        return out


def inv_sn(st, delta, rules, canonical=True):
    return Sem(st, delta, canonical).obligations(rules, ("old",), True, "sn")


def closed(st, rules):
    return Sem(st, None, True).obligations(rules, ("new", "old"), False, "closed")


def closed_own(st, rules):
    """C17 with the role of known finding F5 left out: the inheritance axioms (rules named inherit_*) in full, every
    other rule only for premises that hold through own (asserted or derived, not inherited) member tuples"""
    inh = [r for r in rules if r[0].startswith("inherit_")]
    rest = [r for r in rules if not r[0].startswith("inherit_")]
    return Sem(st, None, True).obligations(inh, ("new", "old"), False, "closed") + \
        Sem(st, None, True, own_only=True).obligations(rest, ("new", "old"), False, "closed-own")
