"""C08: the tuple containers of the runtime behave as ordered sets of fixed-arity tuples.

The real eqlog-runtime/src/prefix_tree.rs is executed symbolically, one arity and one operation at a time, from an
ARBITRARY pre-state (every presence bit of the nested maps is a free Boolean) that satisfies the representation
invariant "no key maps to an empty sub-tree", with symbolic arguments.  WBTreeMap / WBTreeSet are abstract ordered
finite maps / sets (the contract of C14, including the (left, right) order of the union / difference callbacks).
Post-conditions: membership of every tuple equals the set-theoretic result, iteration is ascending without
duplicates, is_empty <=> no tuple, prefix lookups return exactly the tuples with that prefix, and the representation
invariant again -- one inductive step, hence operation sequences of any length.  Clone independence is outside
(value semantics of the abstract map).  A counterexample is replayed against the real runtime before it is reported.
"""
import itertools, json, os, re, sys, time, subprocess
import multiprocessing as mp
import pipeline as P
from pipeline import V, terms
from terms import T, F, Circuit
from values import StructV, MapV, KeySet, OptV, UNIT, UNDEF, Unsupported, int_eq, lit, mkbool, NONE, BoolV, IterV
from interp import Interp
from loader import load_program

SRC = os.path.join(P.REPO, "eqlog-runtime", "src", "prefix_tree.rs")


def arb_tree(ctx, N, U, tag):
    if N == 0:
        return StructV("PrefixTree0", {0: OptV(ctx.fresh_bool(tag), UNIT)})
    if N == 1:
        s = KeySet(U)
        s.p = [ctx.fresh_bool("%s.%d" % (tag, k)) for k in range(U)]
        return StructV("PrefixTree1", {"set": s})
    m = MapV(mkdefault=None, U=U)
    m.p = [ctx.fresh_bool("%s.%d" % (tag, k)) for k in range(U)]
    m.v = [arb_tree(ctx, N - 1, U, "%s.%d" % (tag, k)) for k in range(U)]
    return StructV("PrefixTree%d" % N, {"map": m})


def arity_of(t):
    return int(t.ty[len("PrefixTree"):])


def contents(t, U):
    """tuple -> literal"""
    c = V.CTX.c
    N = arity_of(t)
    if N == 0:
        return {(): t.f[0].some}
    if N == 1:
        return {(k,): t.f["set"].p[k] for k in range(U)}
    out = {}
    m = t.f["map"]
    for k in range(U):
        if m.p[k] == F or m.v[k] is UNDEF:
            sub = {}
        else:
            sub = contents(m.v[k], U)
        for tt in itertools.product(range(U), repeat=N - 1):
            out[(k,) + tt] = c.and2(m.p[k], sub.get(tt, F))
    return out


def top_empty(t):
    N = arity_of(t)
    if N == 0:
        return -t.f[0].some
    if N == 1:
        return t.f["set"].is_empty()
    return t.f["map"].is_empty()


def repinv(t, label="self"):
    """no key maps to an (structurally) empty sub-tree, recursively"""
    c = V.CTX.c
    N = arity_of(t)
    out = []
    if N >= 2:
        m = t.f["map"]
        for k in range(m.U):
            if m.p[k] == F or m.v[k] is UNDEF:
                continue
            out.append(("%s: key %d maps to a non-empty sub-tree" % (label, k), c.implies(m.p[k], -top_empty(m.v[k]))))
            out += [(lab, c.implies(m.p[k], l)) for lab, l in repinv(m.v[k], "%s/%d" % (label, k))]
    return out


def conj(items):
    return V.CTX.c.andl([l for _, l in items])


def sym_tuple(ctx, N, U, tag):
    return tuple(ctx.fresh_int("%s%d" % (tag, i), 0, U - 1) for i in range(N))


def tmatch(keys, t):
    return V.tuple_match(keys, t)


def same_set(label, got, want, U, N):
    c = V.CTX.c
    return [("%s: membership of %s" % (label, list(t)), c.iff(got.get(t, F), want.get(t, F))) for t in itertools.product(range(U), repeat=N)]


def iter_goals(label, items, want, U, N):
    """items: [(guard, concrete tuple)] in iteration order"""
    c = V.CTX.c
    goals = []
    live = [(g, tuple(x)) for g, x in items if g != F]
    for i in range(len(live)):
        for j in range(i + 1, len(live)):
            if not (live[i][1] < live[j][1]):
                goals.append(("%s: yields %s before %s (not ascending / duplicate)" % (label, list(live[i][1]), list(live[j][1])), -c.and2(live[i][0], live[j][0])))
    got = {}
    for g, x in live:
        got[x] = c.or2(got.get(x, F), g)
    goals += same_set(label + " (yielded set)", got, want, U, N)
    return goals


class Case:
    def __init__(self, prog, N, U, op):
        self.prog, self.N, self.U, self.op = prog, N, U, op
        self.ctx = V.set_ctx(V.Ctx(Circuit(), U=U))
        self.I = Interp(prog, self.ctx, loop_bound=U + 1)
        self.c = self.ctx.c
        self.pre = []
        self.goals = []
        self.inputs = {}       # name -> tree / tuple / option, for counterexample decoding

    def call(self, obj, name, *args):
        item = self.prog.methods.get((obj.ty, name))
        if item is None:
            raise Unsupported("%s has no method %s" % (obj.ty, name))
        return self.I.call_fn(item, T, list(args), self_val=obj)

    def tree(self, name, N=None):
        t = arb_tree(self.ctx, self.N if N is None else N, self.U, name)
        self.pre.append(conj(repinv(t, name)))
        self.inputs[name] = ("tree", t, contents(t, self.U))
        return t

    def tup(self, name, N=None):
        x = sym_tuple(self.ctx, self.N if N is None else N, self.U, name)
        self.inputs[name] = ("tuple", x)
        return x

    def post_tree(self, label, t, want):
        self.goals += same_set(label, contents(t, self.U), want, self.U, arity_of(t))
        self.goals += [("%s: %s" % (label, lab), l) for lab, l in repinv(t, "result")]
        anyt = self.c.orl(list(want.values()))
        self.goals.append(("%s: is_empty() <=> no tuple" % label, self.c.iff(lit(self.call(t, "is_empty")), -anyt)))


def build_case(prog, N, U, op):
    k = Case(prog, N, U, op)
    c = k.c
    if op == "insert":
        t = k.tree("self")
        x = k.tup("x")
        pre = dict(k.inputs["self"][2])
        r = k.call(t, "insert", x)
        want = {tt: c.or2(g, tmatch(x, tt)) for tt, g in pre.items()}
        k.post_tree("insert", t, want)
        k.goals.append(("insert: returns true iff the tuple was absent", c.iff(lit(r), -c.orl([c.and2(g, tmatch(x, tt)) for tt, g in pre.items()]))))
    elif op == "remove":
        t = k.tree("self")
        x = k.tup("x")
        pre = dict(k.inputs["self"][2])
        r = k.call(t, "remove", x)
        want = {tt: c.and2(g, -tmatch(x, tt)) for tt, g in pre.items()}
        k.post_tree("remove", t, want)
        k.goals.append(("remove: returns true iff the tuple was present", c.iff(lit(r), c.orl([c.and2(g, tmatch(x, tt)) for tt, g in pre.items()]))))
    elif op == "contains":
        t = k.tree("self")
        x = k.tup("x")
        pre = dict(k.inputs["self"][2])
        r = k.call(t, "contains", x)
        k.goals.append(("contains: result is membership", c.iff(lit(r), c.orl([c.and2(g, tmatch(x, tt)) for tt, g in pre.items()]))))
        k.post_tree("contains (unchanged)", t, pre)
    elif op == "clear":
        t = k.tree("self")
        k.call(t, "clear")
        k.post_tree("clear", t, {})
    elif op == "iter":
        t = k.tree("self")
        pre = dict(k.inputs["self"][2])
        it = k.I.to_iter(k.call(t, "iter"), T)
        k.goals += iter_goals("iter", it.items, pre, U, N)
        k.goals.append(("is_empty() <=> no tuple", c.iff(lit(k.call(t, "is_empty")), -c.orl(list(pre.values())))))
    elif op == "iter_restrictions":
        t = k.tree("self")
        pre = dict(k.inputs["self"][2])
        it = k.I.to_iter(k.call(t, "iter_restrictions"), T)
        seen = []
        for g, item in it.items:
            key, sub = item
            sub = k.I.deref(sub)
            seen.append((g, (key,)))
            subc = contents(sub, U)
            for tt in itertools.product(range(U), repeat=N - 1):
                k.goals.append(("iter_restrictions: restriction under %d, tuple %s" % (key, list(tt)), c.implies(g, c.iff(subc.get(tt, F), pre[(key,) + tt]))))
        want = {(a,): c.orl([g for tt, g in pre.items() if tt[0] == a]) for a in range(U)}
        k.goals += iter_goals("iter_restrictions (keys)", seen, want, U, 1)
    elif op == "get":
        t = k.tree("self")
        pre = dict(k.inputs["self"][2])
        x = k.tup("x", 1)
        r = k.I.deref(k.call(t, "get", x[0]))
        hasp = c.orl([c.and2(g, int_eq(x[0], tt[0])) for tt, g in pre.items()])
        k.goals.append(("get: Some iff some tuple has the prefix", c.iff(r.some, hasp)))
        if r.some != F and r.val is not UNDEF:
            subc = contents(k.I.deref(r.val), U)
            for tt in itertools.product(range(U), repeat=N - 1):
                want = c.orl([c.and2(int_eq(x[0], a), pre[(a,) + tt]) for a in range(U)])
                k.goals.append(("get: restriction contains %s iff the tuple with that prefix is present" % list(tt), c.implies(r.some, c.iff(subc.get(tt, F), want))))
    elif op in ("union", "difference"):
        a = k.tree("self")
        b = k.tree("other")
        pa, pb = dict(k.inputs["self"][2]), dict(k.inputs["other"][2])
        r = k.call(a, op, b)
        want = {tt: (c.or2(pa[tt], pb[tt]) if op == "union" else c.and2(pa[tt], -pb[tt])) for tt in pa}
        k.post_tree(op, r, want)
        k.post_tree(op + " (left operand unchanged)", a, pa)
        k.post_tree(op + " (right operand unchanged)", b, pb)
    elif op in ("insert_restriction", "remove_restriction"):
        t = k.tree("self")
        r = k.tree("restriction", N - 1)
        pt, pr = dict(k.inputs["self"][2]), dict(k.inputs["restriction"][2])
        x = k.tup("x", 1)
        k.call(t, op, x[0], r)
        want = {}
        for tt, g in pt.items():
            hit = c.and2(int_eq(x[0], tt[0]), pr[tt[1:]])
            want[tt] = c.or2(g, hit) if op == "insert_restriction" else c.and2(g, -hit)
        k.post_tree(op, t, want)
    elif op == "mapped":
        t = k.tree("self")
        pre = dict(k.inputs["self"][2])
        maps = []
        for i in range(N):
            some = k.ctx.fresh_bool("map%d.some" % i)
            m = k.tree("map%d" % i, 2)
            mc = k.inputs["map%d" % i][2]
            k.inputs["map%d" % i] = ("optmap", some, m, mc)
            # m_i(a) = b  iff b is the least value with (a, b) in the map
            fn = {}
            for a in range(U):
                seen = F
                for b in range(U):
                    fn[(a, b)] = c.and2(mc[(a, b)], -seen)
                    seen = c.or2(seen, mc[(a, b)])
            maps.append((some, m, fn))
        r = k.call(t, "mapped", *[OptV(s, m) for s, m, fn in maps])
        want = {}
        for tt, g in pre.items():
            if g == F:
                continue
            for t2 in itertools.product(range(U), repeat=N):
                h = g
                for i in range(N):
                    s, m, fn = maps[i]
                    h = c.and2(h, c.or2(c.and2(-s, T if t2[i] == tt[i] else F), c.and2(s, fn[(tt[i], t2[i])])))
                    if h == F:
                        break
                if h != F:
                    want[t2] = c.or2(want.get(t2, F), h)
        k.post_tree("mapped", r, want)
        k.post_tree("mapped (receiver unchanged)", t, pre)
    else:
        raise ValueError(op)
    return k


OPS = {0: ["insert", "remove", "contains", "clear", "iter", "union", "difference", "mapped"]}
for n in range(1, 10):
    OPS[n] = OPS[0] + ["iter_restrictions", "get", "insert_restriction", "remove_restriction"]


def decode_tree(c, model, cont):
    return sorted(list(t) for t, g in cont.items() if c.evaluate([g], model)[0])


def decode_int(c, model, x):
    if isinstance(x, int):
        return x
    for kk, g in V.cases_of(x).items():
        if c.evaluate([g], model)[0]:
            return kk
    return 0


def run_case(task):
    P.limit_memory(20)
    t0 = time.time()
    N, U, op = task["N"], task["U"], task["op"]
    res = {"N": N, "U": U, "op": op, "status": "proved", "goals": 0, "queries": 0}
    try:
        prog = load_program([SRC])
        k = P.with_time_limit(task["timeout"], build_case, prog, N, U, op)
        c = k.c
        panic, bound, compact = [], F, []
        for g, kind, msg in k.ctx.events:
            if kind == "panic":
                k.goals.append(("no panic: " + msg, -g))
            else:
                bound = c.or2(bound, g)
        res["goals"] = len(k.goals)
        res["nodes"] = c.n
        res["encode_s"] = round(time.time() - t0, 2)
        assume = k.ctx.assumes + k.pre + [-bound]
        bad = c.orl([-l for _, l in k.goals])
        r, mdl = terms.solve(c, assume + [bad], solver=task["solver"], timeout_s=task["timeout"])
        res["queries"] += 1
        if r == "sat":
            vals = c.evaluate([l for _, l in k.goals], mdl)
            res["status"] = "failed"
            res["failing"] = [lab for (lab, _), v in zip(k.goals, vals) if not v][:8]
            cex = {}
            for name, inp in k.inputs.items():
                if inp[0] == "tree":
                    cex[name] = {"tree": decode_tree(c, mdl, inp[2]), "arity": arity_of(inp[1])}
                elif inp[0] == "tuple":
                    cex[name] = {"tuple": [decode_int(c, mdl, x) for x in inp[1]]}
                elif inp[0] == "optmap":
                    cex[name] = {"optmap": decode_tree(c, mdl, inp[3]) if c.evaluate([inp[1]], mdl)[0] else None}
            res["cex"] = cex
        r0, _ = terms.solve(c, assume, solver=task["solver"], timeout_s=task["timeout"])
        res["queries"] += 1
        if r0 != "sat":
            res["status"] = "inconclusive"
            res["reason"] = "vacuous: assumptions unsatisfiable"
    except (Unsupported, terms.SolverError, P.Inconclusive, P.Timeout, MemoryError) as ex:
        res["status"] = "inconclusive"
        res["reason"] = "%s: %s" % (type(ex).__name__, ex)
    except Exception:
        import traceback
        res["status"] = "inconclusive"
        res["reason"] = traceback.format_exc()[-1500:]
    res["wall_s"] = round(time.time() - t0, 2)
    return res


# ---------------------------------------------------------------------------------------------
# native replay of a counterexample against the real runtime
def rust_build_tree(var, N, tuples):
    lines = ["let mut %s = PrefixTree%d::new();" % (var, N)]
    for t in tuples:
        lines.append("%s.insert([%s]);" % (var, ", ".join(str(x) for x in t)))
    return "\n".join(lines)


def rust_observe(var, N, U):
    s = 'println!("OBS {} is_empty={} iter={:?}", "%s", %s.is_empty(), %s.iter().collect::<Vec<_>>());' % (var, var, var)
    if N >= 1:
        s += '\nprintln!("OBS {} get_some={:?}", "%s", (0..%d).map(|k| %s.get(k).is_some()).collect::<Vec<bool>>());' % (var, U, var)
    return s


def replay_native(scratch, res):
    """builds a small program against /repo's eqlog-runtime; returns (confirmed, observations, expectation)"""
    N, U, op, cex = res["N"], res["U"], res["op"], res["cex"]
    body = []
    expect = {}
    selft = [tuple(t) for t in cex.get("self", {}).get("tree", [])]
    body.append(rust_build_tree("t", N, selft))
    S = set(selft)
    obs_var, obs_N = "t", N
    if op in ("insert", "remove", "contains"):
        x = tuple(cex["x"]["tuple"])
        body.append('let r = t.%s([%s]); println!("RET {:?}", r);' % (op, ", ".join(map(str, x))))
        if op == "insert":
            expect["ret"] = str(x not in S).lower()
            S = S | {x}
        elif op == "remove":
            expect["ret"] = str(x in S).lower()
            S = S - {x}
        else:
            expect["ret"] = str(x in S).lower()
    elif op == "clear":
        body.append("t.clear();")
        S = set()
    elif op in ("iter", "iter_restrictions"):
        if op == "iter_restrictions":
            body.append('println!("KEYS {:?}", t.iter_restrictions().map(|(k, _)| k).collect::<Vec<u32>>());')
            expect["keys"] = sorted(set(t[0] for t in S))
    elif op == "get":
        pass
    elif op in ("union", "difference"):
        other = [tuple(t) for t in cex["other"]["tree"]]
        body.append(rust_build_tree("o", N, other))
        body.append("let r = t.%s(&o);" % op)
        S = (S | set(other)) if op == "union" else (S - set(other))
        obs_var = "r"
    elif op in ("insert_restriction", "remove_restriction"):
        rt = [tuple(t) for t in cex["restriction"]["tree"]]
        body.append(rust_build_tree("rr", N - 1, rt))
        x = cex["x"]["tuple"][0]
        body.append("t.%s(%d, %s);" % (op, x, "rr" if op == "insert_restriction" else "&rr"))
        hit = set((x,) + t for t in rt)
        S = (S | hit) if op == "insert_restriction" else (S - hit)
    elif op == "mapped":
        args = []
        fns = []
        for i in range(N):
            mt = cex["map%d" % i]["optmap"]
            if mt is None:
                args.append("None")
                fns.append(None)
            else:
                body.append(rust_build_tree("m%d" % i, 2, [tuple(t) for t in mt]))
                args.append("Some(m%d.clone())" % i)
                f = {}
                for a, b in sorted(tuple(t) for t in mt):
                    f.setdefault(a, b)
                fns.append(f)
        body.append("let r = t.mapped(%s);" % ", ".join(args))
        img = set()
        for t in S:
            out = []
            for i, a in enumerate(t):
                if fns[i] is None:
                    out.append(a)
                elif a in fns[i]:
                    out.append(fns[i][a])
                else:
                    out = None
                    break
            if out is not None:
                img.add(tuple(out))
        S = img
        obs_var = "r"
    body.append(rust_observe(obs_var, obs_N, U))
    expect["iter"] = sorted(S)
    expect["is_empty"] = (len(S) == 0)
    if obs_N >= 1:
        expect["get_some"] = [any(t[0] == k for t in S) for k in range(U)]
    d = os.path.join(scratch, "c08replay")
    os.makedirs(os.path.join(d, "src"), exist_ok=True)
    open(os.path.join(d, "Cargo.toml"), "w").write('[package]\nname = "c08replay"\nversion = "0.0.0"\nedition = "2021"\n\n[workspace]\n\n[dependencies]\neqlog-runtime = { path = "%s/eqlog-runtime" }\n' % P.REPO)
    open(os.path.join(d, "src", "main.rs"), "w").write("#![allow(warnings)]\nuse eqlog_runtime::*;\nfn main() {\n%s\n}\n" % "\n".join(body))
    p = P.sh(["cargo", "run", "--offline", "-q"], cwd=d, env={"CARGO_TARGET_DIR": os.path.join(d, "target")}, timeout=600)
    if p.returncode != 0:
        return True, "native run failed / panicked: " + p.stderr[-400:], expect, "\n".join(body)
    obs = {}
    for line in p.stdout.split("\n"):
        m = re.match(r"OBS \w+ is_empty=(\w+) iter=(.*)$", line)
        if m:
            obs["is_empty"] = m.group(1) == "true"
            obs["iter"] = [tuple(int(x) for x in re.findall(r"\d+", r)) for r in re.findall(r"\[([^\[\]]*)\]", m.group(2)[1:-1])] if obs_N > 0 else ([()] if m.group(2).strip() != "[]" else [])
        m = re.match(r"OBS \w+ get_some=(.*)$", line)
        if m:
            obs["get_some"] = [x == "true" for x in re.findall(r"true|false", m.group(1))]
        m = re.match(r"RET (\w+)", line)
        if m:
            obs["ret"] = m.group(1)
        m = re.match(r"KEYS (.*)$", line)
        if m:
            obs["keys"] = [int(x) for x in re.findall(r"\d+", m.group(1))]
    diffs = [k for k in expect if k in obs and obs[k] != expect[k]]
    return bool(diffs), {k: obs.get(k) for k in diffs}, {k: expect[k] for k in diffs}, "\n".join(body)


def main():
    tier = sys.argv[1]
    seed = int(os.environ.get("VERIF_SEED", "1"))
    t0 = time.time()
    scratch = P.scratch_dir()
    P.ensure_rsdump()
    tasks = []
    for N in range(0, 10):
        if tier == "quick":
            U = 3 if N <= 2 else 2
        else:
            U = 3 if N <= 3 else 2
        for op in OPS[N]:
            if tier == "quick" and N > 5 and op not in ("insert", "remove", "contains", "clear", "iter", "get", "iter_restrictions"):
                continue          # quick: the set-algebra operations stop at arity 5; the point operations cover every arity
            if op == "mapped" and N > (4 if tier == "quick" else 6):
                continue          # measured: mapped on arities 7-9 does not finish within 20 min per query; outside the claim
            tasks.append({"N": N, "U": U, "op": op, "solver": os.environ.get("VERIF_SOLVER", "kissat"), "timeout": 120 if tier == "quick" else 1200})
    with mp.get_context("fork").Pool(16, maxtasksperchild=1) as pool:
        results = pool.map(run_case, tasks, chunksize=1)
    known = [k for k in P.load_known() if k["property"] == "C08"]
    failed = [r for r in results if r["status"] == "failed"]
    inconc = [r for r in results if r["status"] == "inconclusive"]
    violations, known_hits, unconfirmed = [], [], []
    for r in failed:
        ok, obs, exp, prog = replay_native(scratch, r)
        r["replay"] = {"confirmed": ok, "observed": obs, "expected": exp}
        if not ok:
            unconfirmed.append(r)
            continue
        kn = [k for k in known if re.search(k["label_regex"], "%s/%d: %s" % (r["op"], r["N"], " | ".join(r["failing"])))]
        if kn:
            known_hits.append((kn[0], r))
        else:
            r["program"] = prog
            violations.append(r)
    wall = time.time() - t0
    replay = None
    if violations:
        os.makedirs(os.path.join(P.VERIF, "evidence", "replays"), exist_ok=True)
        replay = os.path.join(P.VERIF, "evidence", "replays", "C08.json")
        json.dump([{k: r.get(k) for k in ("N", "U", "op", "failing", "cex", "replay", "program")} for r in violations], open(replay, "w"), indent=1)
    cov = {
        "explanation": __doc__,
        "obligations": sum(r.get("goals", 0) for r in results),
        "cases": len(results), "cases_proved": sum(1 for r in results if r["status"] == "proved"),
        "solver_queries": sum(r.get("queries", 0) for r in results),
        "max_circuit_nodes": max([r.get("nodes", 0) for r in results] + [0]),
        "bounds": {"arity": sorted(set(t["N"] for t in tasks)), "universe": {str(n): sorted(set(t["U"] for t in tasks if t["N"] == n)) for n in sorted(set(t["N"] for t in tasks))},
                   "one operation from an arbitrary valid pre-state": True},
        "functions_encoded": "every method of every impl PrefixTreeN in eqlog-runtime/src/prefix_tree.rs listed under 'operations'",
        "operations": OPS[1],
        "samples": [{k: r.get(k) for k in ("N", "U", "op", "goals", "nodes", "status", "wall_s")} for r in results[:3]],
        "known_findings_hit": [{"id": k["id"], "op": r["op"], "N": r["N"], "cex": r["cex"], "replay": r["replay"]} for k, r in known_hits][:6],
        "inconclusive": [{k: r.get(k) for k in ("N", "U", "op", "reason")} for r in inconc][:10],
    }
    P.write_evidence("C08", tier, seed, "other", cov,
                     ["WBTreeMap / WBTreeSet behave as ordered finite maps / sets, callbacks receive (left, right) (C14, not decided here)",
                      "clone independence is outside the claim (value semantics of the abstract map)",
                      "get_mut-based breaking of the representation invariant is excluded, as the source comment at prefix_tree.rs:996 documents"],
                     wall, len(violations))
    seen = set()
    for k, r in known_hits:
        if k["id"] not in seen:
            seen.add(k["id"])
            print("KNOWN-FINDING: property=C08 %s [%s] e.g. %s on arity %d: %s" % (k["what"], k["id"], r["op"], r["N"], json.dumps(r["cex"])))
    if violations:
        print("VIOLATION property=C08 replay=%s" % replay)
        for r in violations[:6]:
            print("  %s on PrefixTree%d: %s cex=%s observed=%s expected=%s" % (r["op"], r["N"], r["failing"][:2], json.dumps(r["cex"]), r["replay"]["observed"], r["replay"]["expected"]))
        sys.exit(1)
    if inconc or unconfirmed:
        for r in inconc[:10]:
            print("INCONCLUSIVE: %s on PrefixTree%d (U=%d): %s" % (r["op"], r["N"], r["U"], r.get("reason", "")[:300]))
        for r in unconfirmed[:10]:
            print("INCONCLUSIVE: counterexample for %s on PrefixTree%d did not reproduce natively: %s" % (r["op"], r["N"], json.dumps(r["cex"])))
        sys.exit(2)
    print("OK property=C08 tier=%s cases=%d obligations=%d wall=%.0fs" % (tier, len(results), cov["obligations"], wall))


def _guarded_main():
    """an internal error of the machinery is never a verdict: exit 2 (inconclusive), not a traceback with exit 1"""
    try:
        main()
    except SystemExit:
        raise
    except BaseException:
        import traceback
        print("INCONCLUSIVE: internal error of the check: " + traceback.format_exc()[-1500:])
        sys.exit(2)


if __name__ == "__main__":
    _guarded_main()
