"""Shared plumbing of the checks: scratch directory, building the real compiler from /repo, generating the
corpus with it, running lemma tasks in parallel, witness search + native replay, known findings,
evidence files and exit codes."""
import json, os, re, resource, shutil, subprocess, sys, time, hashlib, traceback, atexit, glob, random
import multiprocessing as mp

HERE = os.path.dirname(os.path.abspath(__file__))
VERIF = os.path.dirname(HERE)
REPO = os.environ.get("VERIF_REPO", "/repo")
sys.path.insert(0, HERE)
sys.path.insert(0, os.path.join(VERIF, "corpus"))

import terms
import values as V
import model as M
import lemmas as L
import native as N
import history as H
import witness as W
import validate as VA


class Inconclusive(Exception):
    pass


class Timeout(Exception):
    pass


def _alarm(signum, frame):
    raise Timeout("time limit")


def with_time_limit(seconds, fn, *a, **kw):
    import signal
    old = signal.signal(signal.SIGALRM, _alarm)
    signal.alarm(int(seconds))
    try:
        return fn(*a, **kw)
    finally:
        signal.alarm(0)
        signal.signal(signal.SIGALRM, old)


def log(msg):
    sys.stderr.write("[%s] %s\n" % (time.strftime("%H:%M:%S"), msg))
    sys.stderr.flush()


def scratch_dir():
    d = os.environ.get("VERIF_SCRATCH")
    if not d:
        d = "/var/tmp/eqlog-verif.%d" % os.getpid()
        os.environ["VERIF_SCRATCH"] = d
        atexit.register(lambda: shutil.rmtree(d, ignore_errors=True))
    os.makedirs(d, exist_ok=True)
    return d


def limit_memory(gb=40):
    try:
        resource.setrlimit(resource.RLIMIT_AS, (gb << 30, gb << 30))
    except Exception:
        pass


def sh(cmd, cwd=None, env=None, timeout=None):
    e = dict(os.environ, CARGO_NET_OFFLINE="true")
    if env:
        e.update(env)
    return subprocess.run(cmd, cwd=cwd, env=e, capture_output=True, text=True, timeout=timeout)


def build_compiler():
    """builds the eqlog CLI from /repo's working tree (incremental, offline)"""
    t0 = time.time()
    p = sh(["cargo", "build", "-p", "eqlog", "--offline", "-q"], cwd=REPO, timeout=3600)
    if p.returncode != 0:
        raise Inconclusive("the compiler in /repo does not build:\n" + p.stderr[-2000:])
    exe = os.path.join(REPO, "target", "debug", "eqlog")
    if not os.path.exists(exe):
        raise Inconclusive("no eqlog binary after build")
    return exe, time.time() - t0


def ensure_rsdump():
    exe = os.path.join(VERIF, "tools", "rsdump", "target", "release", "rsdump")
    if not os.path.exists(exe):
        p = sh(["cargo", "build", "--release", "--offline", "-q"], cwd=os.path.join(VERIF, "tools", "rsdump"))
        if p.returncode != 0:
            raise Inconclusive("rsdump does not build: " + p.stderr[-1000:])
    return exe


def sha(path):
    return hashlib.sha256(open(path, "rb").read()).hexdigest()[:16]


class Corpus:
    """programs = kernels (hand-written, one mechanism each) + seeded random programs, compiled by the real compiler"""

    def __init__(self, scratch, eqlog_exe, seed, tier, want_random=True):
        self.src = os.path.join(scratch, "corpus_src")
        self.out = os.path.join(scratch, "corpus_out")
        shutil.rmtree(self.src, ignore_errors=True)
        shutil.rmtree(self.out, ignore_errors=True)
        os.makedirs(self.src)
        os.makedirs(self.out)
        self.meta = json.load(open(os.path.join(VERIF, "corpus", "kernels", "META.json")))
        self.programs = {}
        self.rule_level_only = {}
        only = os.environ.get("VERIF_ONLY")       # development knob (never set by a registered command): kernels to keep
        if only:
            want_random = False
        for f in sorted(glob.glob(os.path.join(VERIF, "corpus", "kernels", "*.eql"))):
            name = os.path.basename(f)[:-4]
            if only and name not in only.split(","):
                continue
            shutil.copy(f, os.path.join(self.src, name + ".eql"))
            if self.meta.get(name, {}).get("rule_level_only"):
                self.rule_level_only[name] = {"kind": "kernel"}      # compiled with the corpus, but not part of the state-level lemmas
                continue
            self.programs[name] = {"kind": "kernel"}
        if want_random:
            import gen
            import refsem
            n = 8 if tier == "quick" else 16
            accepted = 0
            for i, text in enumerate(gen.random_programs(seed, n)):
                if accepted >= n:
                    break
                name = "rnd" + "".join(chr(97 + int(d)) for d in "%03d%02d" % (seed % 1000, i))
                # only programs the real compiler accepts are kept
                d = os.path.join(scratch, "try")
                shutil.rmtree(d, ignore_errors=True)
                os.makedirs(os.path.join(d, "src"))
                open(os.path.join(d, "src", name + ".eql"), "w").write(text)
                p = sh([eqlog_exe, os.path.join(d, "src"), os.path.join(d, "out")], timeout=120)
                if p.returncode == 0:
                    try:
                        refsem.reference(text)
                    except Exception:
                        continue          # outside the reference parser: not part of the corpus
                    shutil.copy(os.path.join(d, "src", name + ".eql"), os.path.join(self.src, name + ".eql"))
                    self.programs[name] = {"kind": "random"}
                    self.meta.setdefault(name, {"terminates": "!" not in text})
                    accepted += 1
        p = sh([eqlog_exe, self.src, self.out], timeout=600)
        if p.returncode != 0:
            raise Inconclusive("the compiler rejects or crashes on the corpus:\n" + (p.stdout + p.stderr)[-2000:])
        for name, d in list(self.programs.items()) + list(self.rule_level_only.items()):
            rs = os.path.join(self.out, M.snake(name) + ".eql.rs")
            if not os.path.exists(rs):
                raise Inconclusive("no generated module for " + name)
            d.update(rs=rs, eql=os.path.join(self.src, name + ".eql"), rs_sha=sha(rs))

    def add_repo_theories(self, scratch, eqlog_exe):
        """thorough tier: the repository's own test theories (those the reference parser covers) join the corpus at U = 2"""
        extra = repo_theories(scratch, eqlog_exe)
        for name, p in extra.items():
            p["rs_sha"] = sha(p["rs"])
            self.programs[name] = p
            self.meta.setdefault(name, {"terminates": False})
        return sorted(extra)

    def setup(self, name, U):
        p = self.programs[name]
        return L.Setup(p["rs"], p["eql"], U, repo=REPO)

    def terminates(self, name):
        return self.meta.get(name, {}).get("terminates", True)


def repo_theories(scratch, eqlog_exe):
    """the repository's own test theories (without model declarations), compiled by the real compiler; used by the
    rule-level checks only"""
    src = os.path.join(scratch, "repo_src")
    out = os.path.join(scratch, "repo_out")
    shutil.rmtree(src, ignore_errors=True)
    os.makedirs(src)
    import refsem
    progs = {}
    for f in sorted(glob.glob(os.path.join(REPO, "eqlog-test-eval", "src", "*.eql"))):
        text = open(f).read()
        try:
            refsem.parse(text)
        except Exception:
            continue          # model declarations etc.: outside the reference parser
        name = os.path.basename(f)[:-4]
        shutil.copy(f, os.path.join(src, name + ".eql"))
        progs["repo_" + name] = {"kind": "repo", "eql": os.path.join(src, name + ".eql"), "file": name}
    p = sh([eqlog_exe, src, out], timeout=900)
    if p.returncode != 0:
        raise Inconclusive("the compiler fails on the repository's own theories: " + (p.stdout + p.stderr)[-1000:])
    for k, v in progs.items():
        v["rs"] = os.path.join(out, M.snake(v["file"]) + ".eql.rs")
        if not os.path.exists(v["rs"]):
            raise Inconclusive("no generated module for " + k)
    return progs


# ---------------------------------------------------------------------------------------------
# lemma tasks (run in worker processes)
def run_lemma_task(task):
    """task: dict(program, rs, eql, U, lemma, classes(regex), known(list of regex), solver, timeout).
    returns dict with status in {'proved', 'failed', 'inconclusive'}"""
    limit_memory(24)
    t0 = time.time()
    res = dict(task)
    res.pop("rs", None)
    res.pop("eql", None)
    try:
        su = L.Setup(task["rs"], task["eql"], task["U"], repo=REPO)
        mk = dict(L.all_lemmas(su))[task["lemma"]]
        ctx, goal = with_time_limit(task["timeout"], mk)
        c = ctx.c
        cls = re.compile(task["classes"])
        items = [(lab, l) for lab, l in goal.items if cls.search(lab)]
        res["goals"] = len(items)
        res["nodes"] = c.n
        res["encode_s"] = round(time.time() - t0, 2)
        failing = []
        excluded = set()
        queries = 0
        t1 = time.time()
        budget = task.get("budget", 3 * task["timeout"])        # wall budget of the whole task (encode + all queries)

        def left():
            rem = budget - (time.time() - t0)
            if rem < 2:
                raise Timeout("task budget of %d s exhausted" % budget)
            return int(min(task["timeout"], rem))
        while True:
            live = [(lab, l) for lab, l in items if lab not in excluded]
            bad = c.orl([-l for _, l in live])
            r, mdl = terms.solve(c, goal.assume + [bad], solver=task["solver"], timeout_s=left())
            queries += 1
            if r == "unsat":
                break
            vals = c.evaluate([l for _, l in live], mdl)
            f = [lab for (lab, _), v in zip(live, vals) if not v]
            if not f:
                raise Inconclusive("solver model does not falsify any goal")
            failing += f
            excluded.update(f)
            if queries > 12:
                break
        # vacuity: the assumptions are satisfiable, and every cover goal is reachable
        r0, _ = terms.solve(c, goal.assume, solver=task["solver"], timeout_s=left())
        queries += 1
        if r0 != "sat":
            raise Inconclusive("vacuous lemma: assumptions unsatisfiable")
        res["cover"] = {}
        for lab, l in goal.cover:
            rc, _ = terms.solve(c, goal.assume + [l], solver=task["solver"], timeout_s=left())
            queries += 1
            res["cover"][lab] = (rc == "sat")
        res["queries"] = queries
        res["solve_s"] = round(time.time() - t1, 2)
        res["failing"] = failing
        res["status"] = "failed" if failing else "proved"
    except (V.Unsupported, terms.SolverError, Inconclusive, MemoryError, Timeout) as ex:
        res["status"] = "inconclusive"
        res["reason"] = "%s: %s" % (type(ex).__name__, ex)
    except Exception as ex:
        res["status"] = "inconclusive"
        res["reason"] = "internal error: " + traceback.format_exc()[-1500:]
    res["wall_s"] = round(time.time() - t0, 2)
    return res


def run_tasks(tasks, workers=None):
    workers = workers or min(16, max(1, len(tasks)))
    if not tasks:
        return []
    ctxm = mp.get_context("fork")
    with ctxm.Pool(workers, maxtasksperchild=1) as pool:
        return pool.map(run_lemma_task, tasks, chunksize=1)


# ---------------------------------------------------------------------------------------------
def load_known():
    p = os.path.join(VERIF, "known_findings.json")
    if not os.path.exists(p):
        return []
    return json.load(open(p)).get("findings", [])


def write_evidence(prop, tier, seed, level, coverage, assumptions, wall, violations):
    os.makedirs(os.path.join(VERIF, "evidence"), exist_ok=True)
    ev = {"property_id": prop, "tier": tier, "seed": seed, "level": level, "coverage": coverage,
          "assumptions": assumptions, "wall_s": round(wall, 1), "violations": violations}
    with open(os.path.join(VERIF, "evidence", prop + ".json"), "w") as f:
        json.dump(ev, f, indent=1, sort_keys=True)


def save_replay(prop, program, eql_path, script, observed, info, kind=None):
    d = os.path.join(VERIF, "evidence", "replays")
    os.makedirs(d, exist_ok=True)
    path = os.path.join(d, "%s_%s.json" % (prop, program))
    json.dump({"property": prop, "program": program, "eql": open(eql_path).read(), "script": script,
               "observed": observed, "info": info, "kind": kind,
               "how": "compile the program with /repo's eqlog, run the script against the generated API "
                      "(gensym/replay.py <this file>) and evaluate the stated assertion on the dumped state"},
              open(path, "w"), indent=1)
    return path


def run_witness_task(task):
    """task: dict(program, rs, eql, kind, plans, timeout, scratch).  Returns dict(found=(script, obs, info) | None, tried=[..])"""
    limit_memory(24)
    out = {"program": task["program"], "found": None, "tried": [], "unconfirmed": None, "kind": task["kind"]}
    try:
        su = L.Setup(task["rs"], task["eql"], 2, repo=REPO)
        ctx, I, sch = su.fresh()
        harness = N.NativeHarness(task["scratch"], repo=REPO)
        harness.exe = task["exe"]
        harness.built = True
        kind = task["kind"]
        W.EXCLUDE[0] = task.get("exclude_items")
        t_end = time.time() + task["budget"]
        if kind == "effects":
            for lname in task["lemmas"]:
                for (U, k) in [(2, 0), (2, 1), (2, 2), (3, 2), (3, 3), (3, 4)]:
                    left = t_end - time.time()
                    if left < 5:
                        break
                    try:
                        script, info = with_time_limit(min(left, task["timeout"]), W.search_effects, su, U, k, lname, timeout_s=int(min(left, task["timeout"])))
                    except (V.Unsupported, MemoryError, Timeout) as ex:
                        out["tried"].append("%s U=%d k=%d: %s: %s" % (lname, U, k, type(ex).__name__, ex))
                        continue
                    if script is None:
                        out["tried"].append(info)
                        continue
                    ok, obs = W.replay_effects(su, sch, harness, task["program"], script)
                    if ok:
                        out["found"] = (script, obs, info)
                        return out
                    out["tried"].append("%s U=%d k=%d: history %s did not show a difference to the reference model natively (%s)" % (lname, U, k, script, obs[:1]))
            return out
        if kind == "forced":
            for (U, k, K) in task["plans"]:
                left = t_end - time.time()
                if left < 5:
                    out["tried"].append("time budget exhausted before U=%d k=%d K=%d" % (U, k, K))
                    break
                try:
                    k2 = 0
                    if k >= 10:          # plan code: 10*k1 + k2 = k1 calls, close, k2 calls, close
                        k, k2 = k // 10, k % 10
                    script, info = with_time_limit(min(left, task["timeout"]), W.search_forced, su, U, k, K, timeout_s=int(min(left, task["timeout"])), k2=k2)
                except (V.Unsupported, MemoryError, Timeout) as ex:
                    out["tried"].append("U=%d k=%d K=%d: %s: %s" % (U, k, K, type(ex).__name__, ex))
                    continue
                if script is None:
                    out["tried"].append(info)
                    continue
                ok, obs = W.replay_forced(su, sch, harness, task["program"], script, info)
                if ok:
                    out["found"] = (script, obs, info)
                    break
                out["tried"].append("U=%d k=%d K=%d: solver history %s did not reproduce natively (%s)" % (U, k, K, script, obs[:1]))
            return out
        for (U, k, K) in task["plans"]:
            left = t_end - time.time()
            if left < 5:
                out["tried"].append("time budget exhausted before U=%d k=%d K=%d" % (U, k, K))
                break
            try:
                if kind == "closed-resume":
                    # close_until (stopped at a symbolic point, possibly when nothing is left to do); up to two further calls; close()
                    script, info = with_time_limit(min(left, task["timeout"]), W.search, su, U, max(1, k - 1), K, "closed", resume=True, k2=min(2, k - 1), timeout_s=int(min(left, task["timeout"])))
                elif kind == "enum":
                    script, info = with_time_limit(min(left, task["timeout"]), W.search, su, U, k, K, "enum", early=True, timeout_s=int(min(left, task["timeout"])))
                    if script is None:
                        script, info2 = with_time_limit(min(left, task["timeout"]), W.search_enumq, su, U, k, K, timeout_s=int(min(left, task["timeout"])))
                        info = info if script is None else info2
                elif kind == "idem":
                    script, info = with_time_limit(min(left, task["timeout"]), W.search, su, U, k, K, "idem", timeout_s=int(min(left, task["timeout"])))
                elif kind == "contract":
                    script, info = with_time_limit(min(left, task["timeout"]), W.search, su, U, k, K, "contract", early=True, timeout_s=int(min(left, task["timeout"])))
                else:
                    script, info = with_time_limit(min(left, task["timeout"]), W.search, su, U, k, K, kind, early=True, timeout_s=int(min(left, task["timeout"])))
            except (V.Unsupported, MemoryError, Timeout) as ex:
                out["tried"].append("U=%d k=%d K=%d: %s: %s" % (U, k, K, type(ex).__name__, ex))
                continue
            if script is None:
                out["tried"].append(info)
                continue
            ok, obs = W.replay(su, sch, harness, task["program"], script, "closed" if kind.startswith("closed") else kind, su.rules)
            if ok:
                out["found"] = (script, obs, info)
                break
            out["unconfirmed"] = script
            out["tried"].append("U=%d k=%d K=%d: solver history %s did not reproduce natively" % (U, k, K, script))
            break
    except Exception:
        out["tried"].append("internal error: " + traceback.format_exc()[-1200:])
    return out


def run_witness_tasks(tasks):
    if not tasks:
        return []
    ctxm = mp.get_context("fork")
    with ctxm.Pool(min(8, len(tasks)), maxtasksperchild=1) as pool:
        return pool.map(run_witness_task, tasks, chunksize=1)
