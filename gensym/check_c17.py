"""C17: member relations are inherited along morphisms like ordinary facts (programs with model declarations).

Bounded history queries (SAT) over the real generated module of every model-declaration program of the corpus, with the
real eqlog-runtime/src/toposort.rs and unification.rs interpreted and PrefixTreeN::mapped by contract (C08):

 (1) closedness: k symbolic public calls from new(), then close(): in the final state every reference rule holds --
     including the inheritance axiom `dom(m) = a, cod(m) = b, R(a, xs)  =>  R(b, m(xs))` of every member relation and
     the program's own rules read over the inherited tuples;
 (2) the same for histories `calls; close_until (stopped at a symbolic point); more calls; close()` (morphisms, their
     dom / cod or facts added after an earlier close);
 (0) recompute lemma (inductive piece, arbitrary state, U = 2 and 3): one call of the generated recompute_model_indices makes, for every
     member relation, new-all u old-all exactly the inheritance closure (transitive, along the application graphs) of the own copies,
     and own only shrinks by inherited tuples -- so the inheritance axiom and "nothing else is inherited" hold wherever the
     generated code has just recomputed (the prologue and the end of every iteration, i.e. at every condition evaluation and return);
 (3) history independence by self-composition: two histories asserting the same symbolic facts in different orders,
     with close() at symbolic positions in between, end in the same closed model.
Cyclic morphism graphs (answered by the generated code with a panic) are outside the quantifier and assumed away; any
other panic is a violation.  Counterexamples are API scripts replayed against the real build.
Known finding F5 (inherited tuples are born old when the morphism arrives after the source tuple got old) is keyed by its
role: a counterexample is attributed to F5 iff, natively, the final model is closed once rule premises are read from the `own`
copies of the member relations (inheritance axioms in full) -- i.e. every unsatisfied rule instance relies on an inherited
tuple.  Each query that hits F5 is repeated with exactly those instances left out (`closed-own`), and that must be unsat.
"""
import glob, json, os, re, sys, time, shutil
import pipeline as P
from pipeline import L, M, N, H, W, VA, V, terms
import selfcomp as SC
from loader import load_program

MOR_FACT = r"^(insert|define)_\w+_mor_(dom|cod)$"


class ModelSetup:
    """like lemmas.Setup, with hand-written reference rules (the reference parser does not cover model declarations)"""

    def __init__(self, rs_path, eql_path, rules, U=2):
        self.rs_path, self.eql_path, self.U = rs_path, eql_path, U
        self.prog = load_program([rs_path] + [os.path.join(P.REPO, f) for f in RUNTIME])
        self.rules = rules

    def fresh(self):
        from terms import Circuit
        from interp import Interp
        ctx = V.set_ctx(V.Ctx(Circuit(), U=self.U))
        ctx.compact_k = self.U
        I = Interp(self.prog, ctx, loop_bound=self.U)
        return ctx, I, M.Schema(self.prog)


RUNTIME = ["eqlog-runtime/src/unification.rs", "eqlog-runtime/src/toposort.rs"]


def is_f5(script):
    """the role of known finding F5: a morphism's dom / cod is asserted after an earlier close / close_until"""
    lines = script if isinstance(script, list) else []
    seen_close = False
    for l in lines:
        if l.startswith("close"):
            seen_close = True
        elif seen_close and re.search(MOR_FACT, l.split()[0]):
            return True
    return False


def exclude_f5(h):
    """assumptions for witness.search: after the first close no dom / cod of a morphism is asserted"""
    c = h.c
    out = []
    after = False
    for st in h.steps:
        if st[0] == "close_until":
            after = True
        elif st[0] == "call" and after:
            for j, (name, args) in enumerate(st[2]):
                if re.search(MOR_FACT, name):
                    out.append(-V.int_eq(st[1], j))
    return out


def recompute_lemma(su, U, solver="kissat", timeout_s=600):
    """one call of the generated recompute_model_indices from an ARBITRARY state (all own copies, morphism tables and
    application graphs symbolic; dom, cod and the application graphs functional, every dom / cod value an object, the
    morphism graph acyclic): afterwards, for every member relation, new-all u old-all is exactly the inheritance closure
    of new-own u old-own (reference: U rounds of pushing tuples forward inside the query), and own only shrinks."""
    import itertools
    from terms import T, F
    from values import int_eq, lit
    ctx, I, sch = su.fresh()
    c = ctx.c
    m = M.arbitrary_state(I, sch)
    st = M.State(sch, m)
    doms = [r for r in sch.rels.values() if r.name.endswith("_mor_dom")]
    cods = [r for r in sch.rels.values() if r.name.endswith("_mor_cod")]
    if len(doms) != 1 or len(cods) != 1:
        raise V.Unsupported("expected exactly one model type with morphisms")
    dom, cod = doms[0], cods[0]
    mor_t, obj_t = dom.types
    apps = {r.types[1]: r for r in sch.rels.values() if r.name.endswith("_mor_app")}
    members = [r for r in sch.user_rels() if any(ix.suffix == "_own" for ix in r.indices)]

    def tab(rel, row, suffix=None):
        out = F
        for age in ("new", "old"):
            for ix in rel.indices:
                if ix.age == age and ix.eqs is None and len(ix.order) == rel.arity and ix.suffix == suffix:
                    out = c.or2(out, st.table(ix.field).cell(ix.project(row)))
                    break
        return out

    def holds(rel, row):
        return c.orl([st.table(ix.field).cell(ix.project(row)) for ix in rel.indices if ix.eqs is None and len(ix.order) == rel.arity and ix.suffix is None and ix.order == sorted(ix.order)] or
                     [st.table(rel.full(a).field).cell(rel.full(a).project(row)) for a in ("new", "old")])
    pre = []
    # all index copies of dom / cod / app / object type set agree (they are separate symbolic tables here)
    for rel in [dom, cod] + list(apps.values()) + [sch.rels[obj_t]]:
        for row in M.rows_of(rel, U):
            for age in ("new", "old"):
                base = rel.full(age)
                for ix in rel.indices:
                    if ix.age == age and ix is not base and ix.eqs is None and len(ix.order) == rel.arity:
                        pre.append(c.iff(st.table(ix.field).cell(ix.project(row)), st.table(base.field).cell(base.project(row))))
            pre.append(-c.and2(st.table(rel.full("new").field).cell(rel.full("new").project(row)), st.table(rel.full("old").field).cell(rel.full("old").project(row))))

    def R(rel, row):
        return st.rel_holds(rel.name, row)
    for row in M.rows_of(dom, U):
        pre.append(c.implies(R(dom, row), R(sch.rels[obj_t], (row[1],))))
        for o2 in range(U):
            if o2 != row[1]:
                pre.append(-c.and2(R(dom, row), R(dom, (row[0], o2))))
    for row in M.rows_of(cod, U):
        pre.append(c.implies(R(cod, row), R(sch.rels[obj_t], (row[1],))))
        for o2 in range(U):
            if o2 != row[1]:
                pre.append(-c.and2(R(cod, row), R(cod, (row[0], o2))))
    for t, app in apps.items():
        for row in M.rows_of(app, U):
            for y2 in range(U):
                if y2 != row[2]:
                    pre.append(-c.and2(R(app, row), R(app, (row[0], row[1], y2))))
    own0 = {rel.name: {row: tab(rel, row, "_own") for row in M.rows_of(rel, U)} for rel in members}

    def old_lit(rel, row, suffix=None):
        for ix in rel.indices:
            if ix.age == "old" and ix.eqs is None and len(ix.order) == rel.arity and ix.suffix == suffix:
                return st.table(ix.field).cell(ix.project(row))
        return F
    old0 = {"own": {rel.name: {row: old_lit(rel, row, "_own") for row in M.rows_of(rel, U)} for rel in members},
            "dom": {row: old_lit(dom, row) for row in M.rows_of(dom, U)}, "cod": {row: old_lit(cod, row) for row in M.rows_of(cod, U)},
            "apps": {t: {row: old_lit(app, row) for row in M.rows_of(app, U)} for t, app in apps.items()}}
    dom0 = {row: R(dom, row) for row in M.rows_of(dom, U)}
    cod0 = {row: R(cod, row) for row in M.rows_of(cod, U)}
    app0 = {t: {row: R(app, row) for row in M.rows_of(app, U)} for t, app in apps.items()}
    ev0 = len(ctx.events)
    I.call_fn(su.prog.methods[(sch.model, "recompute_model_indices")], T, [], self_val=m)
    ev = ctx.events[ev0:]
    goals = []
    for g, k, msg in ev:
        if k == "panic":
            if "on Err" in msg:
                pre.append(-g)          # cyclic morphism graph: outside the quantifier
            else:
                goals.append(("recompute: no panic: " + msg, -g))
    bound = c.orl([g for g, k, msg in ev if k == "bound"])
    n_goals_struct = 0
    for rel in members:
        clo = dict(own0[rel.name])
        for _ in range(U):
            nxt = dict(clo)
            for row in M.rows_of(rel, U):
                if clo[row] == F:
                    continue
                a = row[0]
                for mm in range(U):
                    for b in range(U):
                        via = c.and_(dom0[(mm, a)], cod0[(mm, b)], clo[row])
                        if via == F:
                            continue
                        # image of the remaining columns
                        choices = []
                        for col in range(1, rel.arity):
                            t = rel.types[col]
                            if t in apps:
                                choices.append([(y, app0[t][(mm, row[col], y)]) for y in range(U)])
                            else:
                                choices.append([(row[col], T)])
                        for combo in itertools.product(*choices):
                            g = c.andl([via] + [gg for _, gg in combo])
                            if g == F:
                                continue
                            tgt = (b,) + tuple(y for y, _ in combo)
                            nxt[tgt] = c.or2(nxt[tgt], g)
            clo = nxt
        for row in M.rows_of(rel, U):
            all1 = tab(rel, row, "_all")
            own1 = tab(rel, row, "_own")
            goals.append(("recompute: %s%s is in an all copy iff it is in the inheritance closure of the own copies" % (rel.name, list(row)), c.iff(all1, clo[row])))
            goals.append(("recompute: own copy of %s%s only shrinks, and only by inherited tuples" % (rel.name, list(row)), c.and2(c.implies(own1, own0[rel.name][row]), c.implies(own0[rel.name][row], all1))))
    bad = c.orl([-l for _, l in goals])
    r, mdl = terms.solve(c, ctx.assumes + pre + [-bound, bad], solver=solver, timeout_s=timeout_s)
    out = {"goals": len(goals), "nodes": c.n, "result": r}
    if r == "sat":
        vals = c.evaluate([l for _, l in goals], mdl)
        out["failing"] = [lab for (lab, _), v in zip(goals, vals) if not v][:6]

        def tv(l):
            return c.evaluate([l], mdl)[0]
        out["state"] = {"U": U, "dom": [list(row) for row, l in dom0.items() if tv(l)], "cod": [list(row) for row, l in cod0.items() if tv(l)],
                        "dom_rel": dom.name, "cod_rel": cod.name, "obj_type": obj_t, "mor_type": mor_t,
                        "apps": {app.name: [list(row) for row, l in app0[t].items() if tv(l)] for t, app in apps.items()},
                        "own": {rel.name: [list(row) for row, l in own0[rel.name].items() if tv(l)] for rel in members},
                        "old": {"dom": [list(row) for row, l in old0["dom"].items() if tv(l)], "cod": [list(row) for row, l in old0["cod"].items() if tv(l)],
                                "apps": {apps[t].name: [list(row) for row, l in old0["apps"][t].items() if tv(l)] for t in apps},
                                "own": {rn: [list(row) for row, l in d_.items() if tv(l)] for rn, d_ in old0["own"].items()}},
                        "member_types": sorted(apps)}
    rv, _ = terms.solve(c, ctx.assumes + pre + [-bound, c.orl([c.and2(dom0[(mm, a)], cod0[(mm, b)]) for mm in range(U) for a in range(U) for b in range(U) if a != b])], solver=solver, timeout_s=timeout_s)
    out["vacuity (a morphism between two objects exists)"] = rv
    return out


def replay_recompute(su, sch, harness, name, state):
    """native replay of a recompute-lemma counterexample: the state is rebuilt through the public API (every tuple new; elements of
    member types are created under object 0), close_until stops at its first condition evaluation (right after
    recompute_model_indices) and the dumped all-copies are compared with the inheritance closure of the asserted member tuples.
    Returns (confirmed, observations)."""
    U = state["U"]
    script = []
    for t in sch.types:
        item = su.prog.methods.get((sch.model, "new_" + t))
        if item is None:
            return False, ["type %s has no constructor" % t]
        nargs = len(item["sig"]["inputs"]) - 1
        if nargs == 0:
            script += ["new_" + t] * U
        elif nargs == 1 and t in state["member_types"]:
            continue
        else:
            return False, ["constructor of %s takes %d arguments" % (t, nargs)]
    for t in state["member_types"]:
        script += ["new_%s 0" % t] * U
    old = state.get("old", {"dom": [], "cod": [], "apps": {}, "own": {}})

    def phase(want_old):
        lines = []
        for row in state["dom"]:
            if (row in old["dom"]) == want_old:
                lines.append("insert_%s %d %d" % (state["dom_rel"], row[0], row[1]))
        for row in state["cod"]:
            if (row in old["cod"]) == want_old:
                lines.append("insert_%s %d %d" % (state["cod_rel"], row[0], row[1]))
        for arel, rows in state["apps"].items():
            for row in rows:
                if (row in old["apps"].get(arel, [])) == want_old:
                    lines.append("insert_%s %d %d %d" % (arel, row[0], row[1], row[2]))
        for rel, rows in state["own"].items():
            for row in rows:
                if (row in old["own"].get(rel, [])) == want_old:
                    lines.append("insert_%s %s" % (rel, " ".join(map(str, row))))
        return lines
    p_old = phase(True)
    if p_old:
        script += p_old + ["close_until 3"]        # the tuples asserted so far become old (rules may run: the expectation is read off the dump)
    script += phase(False)
    script.append("close_until 0")
    try:
        rc, out, err = harness.run(name, script, timeout=60)
    except Exception as ex:
        return False, ["native run failed: %r" % ex]
    if rc != 0:
        return True, ["native run panics: " + err.strip().split("\n")[0][:200]]
    dumps = [e for e in N.parse_output(out) if e[0] == "dump"]
    if not dumps:
        return False, ["no dump"]
    nat = N.canonical_native(sch, dumps[-1][2])

    def rows_of_rel(R, suffix):
        got = set()
        for ix in R.indices:
            if ix.suffix == suffix and ix.eqs is None and len(ix.order) == R.arity:
                inv = {o: i for i, o in enumerate(ix.order)}
                for tup in nat[("field", ix.field)]:
                    got.add(tuple(tup[inv[col]] for col in range(R.arity)))
        return got
    problems = []
    dommap = {m_: a for m_, a in rows_of_rel(sch.rels[state["dom_rel"]], None)}
    codmap = {m_: b for m_, b in rows_of_rel(sch.rels[state["cod_rel"]], None)}
    appmap = {}
    for arel in state["apps"]:
        t = sch.rels[arel].types[1]
        for m_, x, y in sorted(rows_of_rel(sch.rels[arel], None)):
            appmap.setdefault((t, m_, x), y)
    for rel in state["own"]:
        R = sch.rels[rel]
        clo = rows_of_rel(R, "_own")
        for _ in range(U + 2):
            add = set()
            for m_, a in dommap.items():
                if m_ not in codmap:
                    continue
                for r_ in clo:
                    if r_[0] != a:
                        continue
                    img = [codmap[m_]]
                    for col in range(1, R.arity):
                        t = R.types[col]
                        if t in state["member_types"]:
                            y = appmap.get((t, m_, r_[col]))
                            if y is None:
                                img = None
                                break
                            img.append(y)
                        else:
                            img.append(r_[col])
                    if img is not None:
                        add.add(tuple(img))
            clo |= add
        got = rows_of_rel(R, "_all")
        if got != clo:
            problems.append("%s right after recompute_model_indices: the all copies hold %s, the inheritance closure of the own copies (along the dumped dom / cod / application tables) is %s" % (rel, sorted(got), sorted(clo)))
    return bool(problems), problems + ["script: " + "; ".join(script)]


def run_program(task):
    P.limit_memory(30)
    t0 = time.time()
    name = task["program"]
    res = {"program": name, "queries": [], "violations": [], "known": [], "inconclusive": []}
    try:
        su = ModelSetup(task["rs"], task["eql"], task["rules"])
        ctx, I, sch = su.fresh()
        harness = N.NativeHarness(task["scratch"], repo=P.REPO)
        harness.exe = task["exe"]
        harness.built = True
        t_end = t0 + task["budget"]     # (the recompute lemma below uses `harness` for its native replay)

        def left():
            return max(5, int(min(task["timeout"], t_end - time.time())))

        for UL in (2, 3):
            try:
                suL = ModelSetup(task["rs"], task["eql"], task["rules"], U=UL)
                lem = P.with_time_limit(600, recompute_lemma, suL, UL, timeout_s=600)
                ok = lem["result"] == "unsat" and lem["vacuity (a morphism between two objects exists)"] == "sat"
                res["queries"].append({"kind": "recompute lemma (arbitrary state)", "plan": [UL], "outcome": "unsat" if ok else str(lem)[:300], "info": {"nodes": lem["nodes"], "goals": lem["goals"]}})
                if lem["result"] == "sat":
                    ctxL, IL, schL = suL.fresh()
                    okr, obsr = replay_recompute(suL, schL, harness, name, lem["state"])
                    if okr:
                        res["violations"].append({"kind": "recompute lemma", "plan": [UL], "script": ["(state rebuilt through the API; see observed)"], "observed": obsr[:3], "info": {"state": lem["state"]}})
                    else:
                        res["inconclusive"].append("recompute lemma (U=%d) fails and the counterexample state does not reproduce natively with all tuples new: %s / %s" % (UL, lem.get("failing"), obsr[:1]))
                elif not ok:
                    res["inconclusive"].append("recompute lemma (U=%d): %s" % (UL, lem))
            except (V.Unsupported, MemoryError, P.Timeout) as ex:
                res["inconclusive"].append("recompute lemma (U=%d): %s: %s" % (UL, type(ex).__name__, ex))
        if task.get("lemma_only"):
            res["wall_s"] = round(time.time() - t0, 1)
            return res

        def record(kind, plan, outcome, info=None):
            res["queries"].append({"kind": kind, "plan": plan, "outcome": outcome, "info": info if isinstance(info, (dict, str)) else None})

        def closed_search(plan, resume, excl):
            U, k, K, k2 = plan
            try:
                return P.with_time_limit(left(), W.search, su, U, k, K, "closed-own" if excl else "closed", resume=resume, k2=k2, timeout_s=left(), assume_acyclic=True)
            except (V.Unsupported, MemoryError) as ex:
                return None, "%s: %s" % (type(ex).__name__, ex)
            except P.Timeout:
                return None, "timeout"

        def own_closed(script):
            """role of known finding F5: natively, every unsatisfied rule instance relies on an inherited (non-own) member tuple,
            i.e. the model is closed once premises are read from the own copies (the inheritance axioms are kept in full)"""
            ok2, obs2 = W.replay(su, sch, harness, name, script, "closed-own", su.rules)
            return not ok2

        def handle(kind, plan, script, info, replay_fn, pair=False):
            ok, obs = replay_fn(script)
            if not ok:
                res["inconclusive"].append("%s %s: solver history %s did not reproduce natively (%s)" % (kind, plan, script, obs[:1]))
                record(kind, plan, "not reproduced", info)
                return False
            f5 = all(own_closed(sc) for sc in script) if pair else own_closed(script)
            (res["known"] if f5 else res["violations"]).append({"kind": kind, "plan": plan, "script": script, "observed": obs[:4], "info": info})
            record(kind, plan, "known finding F5" if f5 else "VIOLATION", info)
            return f5

        for plan in task["oneshot"]:
            if time.time() > t_end:
                record("closed", plan, "skipped: time budget")
                continue
            script, info = closed_search(plan + (0,), False, False)
            if script is None:
                record("closed", plan, "unsat" if str(info).startswith("no history") else "undecided: " + str(info)[:200], None)
                if not str(info).startswith("no history") and info != "timeout":
                    res["inconclusive"].append("closed %s: %s" % (plan, info))
                continue
            f5 = handle("closed", plan, script, info, lambda s: W.replay(su, sch, harness, name, s, "closed", su.rules))
            if f5:
                script, info = closed_search(plan + (0,), False, True)
                if script is None:
                    record("closed (instances relying on inherited tuples left out)", plan, "unsat" if str(info).startswith("no history") else "undecided: " + str(info)[:200], None)
                else:
                    ok, obs = W.replay(su, sch, harness, name, script, "closed-own", su.rules)
                    if ok:
                        res["violations"].append({"kind": "closed-own", "plan": plan, "script": script, "observed": obs[:4], "info": info})
                        record("closed (instances relying on inherited tuples left out)", plan, "VIOLATION", info)
                    else:
                        res["inconclusive"].append("closed-own %s: solver history %s did not reproduce natively" % (plan, script))
        for plan in task["resume"]:
            for excl in (False, True):
                if time.time() > t_end:
                    record("closed-after-early-stop", plan, "skipped: time budget")
                    continue
                script, info = closed_search(plan, True, excl)
                tag = "closed-after-early-stop" + (" (instances relying on inherited tuples left out)" if excl else "")
                if script is None:
                    record(tag, plan, "unsat" if str(info).startswith("no history") else "undecided: " + str(info)[:200], None)
                    if not str(info).startswith("no history") and info != "timeout":
                        res["inconclusive"].append("%s %s: %s" % (tag, plan, info))
                    break
                if excl:
                    ok, obs = W.replay(su, sch, harness, name, script, "closed-own", su.rules)
                    if ok:
                        res["violations"].append({"kind": "closed-own", "plan": plan, "script": script, "observed": obs[:4], "info": info})
                        record(tag, plan, "VIOLATION", info)
                    else:
                        res["inconclusive"].append("%s %s: solver history %s did not reproduce natively" % (tag, plan, script))
                    break
                f5 = handle(tag, plan, script, info, lambda s: W.replay(su, sch, harness, name, s, "closed", su.rules))
                if not f5:
                    break           # a violation (or a non-reproducing model): nothing to exclude
        for plan in task["selfcomp"]:
            for excl in (False, True):
                if time.time() > t_end:
                    record("history-independence", plan, "skipped: time budget")
                    continue
                tag = "history-independence" + (" (F5 histories excluded)" if excl else "")
                try:
                    found, info = P.with_time_limit(left(), SC.search, su, plan[0], plan[1], plan[2], timeout_s=left(), assume_acyclic=True,
                                                    late_forbidden=MOR_FACT if excl else None)
                except (V.Unsupported, MemoryError) as ex:
                    res["inconclusive"].append("%s %s: %s" % (tag, plan, ex))
                    record(tag, plan, "inconclusive: %s" % ex)
                    break
                except P.Timeout:
                    record(tag, plan, "undecided: timeout")
                    break
                if found is None:
                    record(tag, plan, "unsat" if isinstance(info, dict) else "undecided: " + str(info)[:200], info if isinstance(info, dict) else None)
                    break
                f5 = handle(tag, plan, list(found), info, lambda s: SC.replay(su, sch, harness, name, s), pair=True)
                if not f5:
                    break
    except Exception:
        import traceback
        res["inconclusive"].append("internal error: " + traceback.format_exc()[-1500:])
    res["wall_s"] = round(time.time() - t0, 1)
    return res


def main():
    tier = sys.argv[1]
    seed = int(os.environ.get("VERIF_SEED", "1"))
    t0 = time.time()
    P.limit_memory(48)
    scratch = P.scratch_dir()
    try:
        P.ensure_rsdump()
        exe, build_s = P.build_compiler()
    except P.Inconclusive as ex:
        print("INCONCLUSIVE: %s" % ex)
        sys.exit(2)
    meta = json.load(open(os.path.join(P.VERIF, "corpus", "models", "META.json")))
    src = os.path.join(scratch, "c17_src")
    out = os.path.join(scratch, "c17_out")
    shutil.rmtree(src, ignore_errors=True)
    shutil.rmtree(out, ignore_errors=True)
    os.makedirs(src)
    progs = {}
    for f in sorted(glob.glob(os.path.join(P.VERIF, "corpus", "models", "*.eql"))):
        name = os.path.basename(f)[:-4]
        if name not in meta:
            continue
        shutil.copy(f, os.path.join(src, name + ".eql"))
        progs[name] = {"eql": os.path.join(src, name + ".eql"), "rules": meta[name]["rules"], "lemma_only": meta[name].get("lemma_only", False)}
    p = P.sh([exe, src, out], timeout=900)
    if p.returncode != 0:
        print("INCONCLUSIVE: the compiler rejects the model-declaration corpus: " + (p.stdout + p.stderr)[-1500:])
        sys.exit(2)
    harness = N.NativeHarness(scratch, repo=P.REPO)
    setups = {}
    for name, pr in progs.items():
        pr["rs"] = os.path.join(out, M.snake(name) + ".eql.rs")
        su = ModelSetup(pr["rs"], pr["eql"], pr["rules"])
        ctx, I, sch = su.fresh()
        setups[name] = (su, sch)
        harness.add(name, pr["rs"], su.prog, sch)
    val_bad, val_n = [], 0
    try:
        harness.build()
        nval = 4 if tier == "quick" else 20
        for name, (su, sch) in setups.items():
            bad, samples = VA.validate(su, sch, harness, name, seed, nval, 12, terminates=True)
            val_n += nval
            val_bad += [(name, s, d) for s, d in bad]
    except Exception as ex:
        val_bad.append(("<harness>", None, "native harness: %r" % ex))
    P.log("translator validation: %d scripts, %d mismatches" % (val_n, len(val_bad)))
    quick = tier == "quick"
    tasks = []
    for name, pr in sorted(progs.items()):
        heavy = name == "mset"
        tasks.append({"program": name, "rs": pr["rs"], "eql": pr["eql"], "rules": pr["rules"], "scratch": scratch, "exe": harness.exe, "lemma_only": pr["lemma_only"],
                      "oneshot": [(2, 3, 3)] if quick else [(2, 3, 3), (2, 4, 3), (2, 5, 3), (3, 4, 3)],
                      "resume": ([(2, 3, 3, 2)] if name == "inh" else []) if quick else [(2, 3, 3, 2), (2, 3, 3, 3), (3, 3, 3, 2)],
                      "selfcomp": [] if quick else [(2, 3, 3), (2, 4, 3)],
                      "timeout": 240 if quick else 2400, "budget": 420 if quick else 7200})
    import multiprocessing as mp
    with mp.get_context("fork").Pool(min(8, len(tasks)), maxtasksperchild=1) as pool:
        results = pool.map(run_program, tasks, chunksize=1)
    wall = time.time() - t0
    known = [k for k in P.load_known() if k["property"] == "C17"]
    viol = [(r["program"], v) for r in results for v in r["violations"]]
    hits = [(r["program"], v) for r in results for v in r["known"]]
    inconc = [(r["program"], s) for r in results for s in r["inconclusive"]]
    if hits and not any(k["id"] == "F5" for k in known):
        viol += hits
        hits = []
    replay = None
    if viol:
        os.makedirs(os.path.join(P.VERIF, "evidence", "replays"), exist_ok=True)
        replay = os.path.join(P.VERIF, "evidence", "replays", "C17.json")
        json.dump([{"program": n, "eql": open(progs[n]["eql"]).read(), "violation": v,
                    "how": "compile the program with /repo's eqlog and run the script(s) against the generated API (gensym/replay.py)"} for n, v in viol[:10]], open(replay, "w"), indent=1)
    allq = [dict(q, program=r["program"]) for r in results for q in r["queries"]]
    cov = {
        "explanation": __doc__,
        "programs": len(progs), "program_names": sorted(progs),
        "queries": allq[:60],
        "solver_queries": len(allq),
        "queries_unsat": sum(1 for q in allq if q["outcome"] == "unsat"),
        "queries_undecided_within_budget (nothing claimed)": [q for q in allq if str(q["outcome"]).startswith(("undecided", "skipped"))][:20],
        "bounds": {"universe": 2 if quick else "2 and 3", "plans": "closed: (U, calls, iterations per close); after an early stop: (U, calls, iterations, further calls); history independence: (U, facts, iterations)"},
        "functions_encoded": ["every fn of the generated module reachable from new / the public mutators / close_until (incl. recompute_model_indices)",
                              "eqlog-runtime/src/toposort.rs and unification.rs (interpreted)", "PrefixTreeN incl. mapped / insert_restriction / remove_restriction by contract (C08)"],
        "translator_validation": {"scripts": val_n, "mismatches": len(val_bad)},
        "known_findings_hit": [{"id": "F5", "program": n, "script": v["script"], "observed": v["observed"][:2]} for n, v in hits][:6],
        "inconclusive": [str(x)[:400] for x in inconc][:10],
        "compiler_build_s": round(build_s, 1),
    }
    P.write_evidence("C17", tier, seed, "other", cov,
                     ["reference rules of the model-declaration programs are hand-written (corpus/models/META.json): inheritance axiom per member relation + the program's rules",
                      "bounded histories only (no inductive invariant for the own/all index copies has been formulated): every claim is for the listed plans",
                      "cyclic morphism graphs are outside the quantifier (assumed away); WBTreeMap as ordered map (C14); PrefixTreeN by contract (C08)"],
                     wall, len(viol))
    for n, v in hits[:3]:
        k = [k for k in known if k["id"] == "F5"][0]
        print("KNOWN-FINDING: property=C17 %s [F5] program=%s history=%s" % (k["what"], n, v["script"]))
    if viol:
        print("VIOLATION property=C17 replay=%s" % replay)
        for n, v in viol[:5]:
            print("  program=%s %s %s: history=%s observed=%s" % (n, v["kind"], v["plan"], v["script"], v["observed"][:2]))
        sys.exit(1)
    for name, s, d in val_bad[:5]:
        print("INCONCLUSIVE: translator validation mismatch in %s: %s (script %s)" % (name, d, s))
    for n, s in inconc[:8]:
        print("INCONCLUSIVE: %s: %s" % (n, s[:500]))
    if inconc or val_bad:
        sys.exit(2)
    print("OK property=C17 tier=%s programs=%d queries=%d (unsat %d) wall=%.0fs" % (tier, len(progs), len(allq), cov["queries_unsat"], wall))


def _guarded_main():
    """an internal error of the machinery is never a verdict: exit 2 (inconclusive), not a traceback with exit 1"""
    try:
        main()
    except SystemExit:
        raise
    except BaseException:
        import traceback
        print("INCONCLUSIVE: internal error of the check: " + traceback.format_exc()[-1500:])
        sys.exit(2)


if __name__ == "__main__":
    _guarded_main()
