"""Witness search and replay: after a lemma has failed, find a public-API history (by a solver query
over symbolic calls from `new()`) that violates the property-level assertion, and replay it against
the real build.  Only a replayed violation is reported."""
import os, time
from terms import T, F, Circuit
import terms
import values as V
from values import lit
import model as M
import sem as S
import history as H
import native as N


def struct_items(st):
    return M.inv_unionfind(st) + M.inv_struct(st, canon=True) + M.inv_no_uprooted(st)


def property_items(kind, st, rules):
    """the observable assertion of a property at an observation point"""
    if kind == "struct":         # C04: at every condition evaluation and at return
        return struct_items(st)
    if kind == "closed":         # C01: at `return false`
        return S.closed(st, rules)
    raise ValueError(kind)


def search(su, U, k, K, kind, early=False, resume=False, k2=0, timeout_s=300, solver="kissat"):
    """returns (script lines, info) or (None, reason)"""
    t0 = time.time()
    h = H.SymHistory(su, U, None)
    c = h.c
    bad = []

    h.precreate()
    for i in range(k):
        h.sym_call(i)

    def on_cond(g):
        if kind == "struct":
            bad.append(c.and2(g, -M.conj(property_items("struct", h.st, su.rules))))

    def on_return_first(rv):
        if kind == "struct":
            bad.append(-M.conj(property_items("struct", h.st, su.rules)))
        if kind == "closed" and not resume:
            bad.append(c.and2(-rv, -M.conj(property_items("closed", h.st, su.rules))))
        if resume:
            h.assume.append(rv)           # the first close_until stopped early

    h.sym_close(K, early or resume, on_cond, on_return_first)
    if resume:
        for i in range(k2):
            h.sym_call(k + i)

        def on_return_second(rv):
            bad.append(-M.conj(property_items(kind, h.st, su.rules)))
        h.sym_close(K, False, on_cond, on_return_second)
    bound = c.orl([g for g, kk, _ in h.ctx.events if kk in ("bound", "compact")])
    enc = time.time() - t0
    try:
        r, model = terms.solve(c, h.ctx.assumes + h.assume + [-bound, c.orl(bad)], solver=solver, timeout_s=timeout_s)
    except terms.SolverError as ex:
        return None, "solver: %s (encode %.1fs, %d nodes)" % (ex, enc, c.n)
    if r == "unsat":
        return None, "no history with U=%d, %d calls, %d iterations violates '%s' (encode %.1fs, %d nodes)" % (U, k, K, kind, enc, c.n)
    script = h.decode(model)
    return script, {"U": U, "k": k, "K": K, "nodes": c.n, "encode_s": round(enc, 1)}


def replay(su, sch, harness, name, script, kind, rules, U=8):
    """runs the script natively; returns (confirmed: bool, failing labels / description)"""
    lines = []
    for l in script:
        # a plain close() is replayed as close_until with a condition that never holds, so that the state is
        # also dumped at every evaluation of the condition (observation points of C04)
        lines.append("close_until 1000000" if l == "close" else l)
        if l.startswith("close"):
            lines.append("dump")
    try:
        rc, out, err = harness.run(name, lines, timeout=60)
    except Exception as ex:
        return True, ["native run does not terminate / fails to run: %r" % ex]
    if rc != 0:
        return True, ["native run panics: " + err.strip().split("\n")[0][:200]]
    V.set_ctx(V.Ctx(Circuit(), U=U))
    events = N.parse_output(out)
    failing = []
    last_ret = None
    for ev in events:
        if ev[0] == "ret":
            last_ret = ev[1]
            continue
        _, where, d = ev
        st = M.State(sch, N.state_from_dump(sch, d, U))
        if kind == "struct":
            items = struct_items(st)
        else:
            if where.startswith("cond") or last_ret != "false":
                continue            # closedness is claimed after close() / `return false` only
            items = S.closed(st, rules)
        for lab, l in items:
            if l == F:
                failing.append("%s: %s" % (where, lab))
            elif l != T:
                raise RuntimeError("native state did not evaluate to a constant")
    return bool(failing), failing
