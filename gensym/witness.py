"""Witness search and replay: after a lemma has failed, find a public-API history (by a solver query
over symbolic calls from `new()`) that violates the property-level assertion, and replay it against
the real build.  Only a replayed violation is reported."""
import os, time
from terms import T, F, Circuit
import terms
import values as V
from values import lit
import model as M
import sem as S
import history as H
import native as N


def struct_items(st):
    return M.inv_unionfind(st) + M.inv_struct(st, canon=True) + M.inv_no_uprooted(st)


EXCLUDE = [None]      # regex over item labels that belong to a listed known finding (set per witness task)


def property_items(kind, st, rules):
    """the observable assertion of a property at an observation point"""
    import re
    if kind == "struct":         # C04: at every condition evaluation and at return
        return struct_items(st)
    if kind == "closed-own":
        return S.closed_own(st, rules)
    if kind == "closed":         # C01: at `return false`
        items = S.closed(st, rules)
        if EXCLUDE[0]:
            items = [(lab, l) for lab, l in items if not re.search(EXCLUDE[0], lab)]
        return items
    raise ValueError(kind)


def search(su, U, k, K, kind, early=False, resume=False, k2=0, timeout_s=300, solver="kissat", assume_acyclic=False, extra_assume=None):
    """returns (script lines, info) or (None, reason)"""
    t0 = time.time()
    h = H.SymHistory(su, U, None)
    c = h.c
    bad = []

    h.precreate()
    for i in range(k):
        h.sym_call(i)
    lens0 = {t: h.st.nelems(t) for t in h.sch.types}
    roots0 = {(t, i): h.st.is_root(t, i) for t in h.sch.types for i in range(U)}
    ev0 = len(h.ctx.events)

    cond_snaps = []

    def on_cond(g):
        if kind == "contract":
            import lemmas as L
            cond_snaps.append((g, L.observable_snapshot(h.st)))
        if kind == "struct":
            bad.append(c.and2(g, -M.conj(property_items("struct", h.st, su.rules))))

    def on_return_first(rv):
        if kind == "struct":
            bad.append(-M.conj(property_items("struct", h.st, su.rules)))
        if kind in ("closed", "closed-own") and not resume:
            bad.append(c.and2(-rv, -M.conj(property_items(kind, h.st, su.rules))))
        if kind == "contract":      # C07: the state at return differs from the state in which the condition was last evaluated
            import lemmas as L
            conds = h.steps[-1][1]
            held = c.orl([c.and_(g, b, L.same_observable(h.st, snap)) for (g, b), (_, snap) in zip(conds, cond_snaps)])
            failed = c.orl([c.and_(g, -b, L.same_observable(h.st, snap)) for (g, b), (_, snap) in zip(conds, cond_snaps)])
            bad.append(c.and2(rv, -held))
            bad.append(c.and2(-rv, -failed))
        if kind == "enum":          # C15: after close() some element of an enum type is not a constructor value
            import lemmas as L
            bad.append(-M.conj(L.inv_enum(su, h.st)))
        if kind == "noalloc":       # C06: close() allocated an element, created a class, or needs more than K iterations
            for t in h.sch.types:
                bad.append(-V.int_eq(h.st.nelems(t), lens0[t]))
            for (t, i), r0 in roots0.items():
                bad.append(c.and2(h.st.is_root(t, i), -r0))
        if resume:
            h.assume.append(rv)           # the first close_until stopped early

    h.sym_close(K, early or resume, on_cond, on_return_first)
    if kind == "idem":
        import lemmas as L
        snap = L.observable_snapshot(h.st)
        h.sym_close(K, False, lambda g: None, lambda rv: bad.append(-L.same_observable(h.st, snap)))
    if resume:
        for i in range(k2):
            h.sym_call(k + i)

        def on_return_second(rv):
            bad.append(-M.conj(property_items(kind, h.st, su.rules)))
        h.sym_close(K, False, on_cond, on_return_second)
    if assume_acyclic:
        # C17 quantifies over acyclic morphism graphs: the generated code answers a cycle with a panic (`expect` on the
        # Err of morphism_toposort); those histories are outside the claim, every other panic is a violation
        for g, kk, msg in h.ctx.events:
            if kk == "panic":
                if "on Err" in msg:
                    h.assume.append(-g)
                else:
                    bad.append(g)
    if extra_assume is not None:
        h.assume += extra_assume(h)

    def loopbound(msg):
        return kind == "noalloc" and msg.startswith("loop bound") and msg.endswith("in close_until")
    bound = c.orl([g for g, kk, msg in h.ctx.events if kk in ("bound", "compact") and not loopbound(msg)])
    bad += [g for g, kk, msg in h.ctx.events[ev0:] if kk == "bound" and loopbound(msg)]
    enc = time.time() - t0
    try:
        r, model = terms.solve(c, h.ctx.assumes + h.assume + [-bound, c.orl(bad)], solver=solver, timeout_s=timeout_s)
    except terms.SolverError as ex:
        return None, "solver: %s (encode %.1fs, %d nodes)" % (ex, enc, c.n)
    if r == "unsat":
        return None, "no history with U=%d, %d calls, %d iterations violates '%s' (encode %.1fs, %d nodes)" % (U, k, K, kind, enc, c.n)
    script = h.decode(model)
    return script, {"U": U, "k": k, "K": K, "nodes": c.n, "encode_s": round(enc, 1)}


def replay(su, sch, harness, name, script, kind, rules, U=8):
    """runs the script natively; returns (confirmed: bool, failing labels / description)"""
    lines = []
    if kind == "noalloc":
        return replay_noalloc(su, sch, harness, name, script)
    if kind == "enum":
        return replay_enum(su, sch, harness, name, script)
    if kind == "contract":
        return replay_contract(su, sch, harness, name, script)
    if kind == "idem":
        import selfcomp as SC
        rc, out, err = harness.run(name, list(script) + ["dump", "close", "dump"], timeout=60)
        if rc != 0:
            return True, ["native run panics: " + err.strip().split("\n")[0][:200]]
        dumps = [e[2] for e in N.parse_output(out) if e[0] == "dump"]
        a, b = SC.canonical_model(sch, dumps[-2]), SC.canonical_model(sch, dumps[-1])
        diff = ["a second close() changes %s: %s -> %s" % (k, a[k], b[k]) for k in a if a[k] != b.get(k)]
        return bool(diff), diff[:4]
    for l in script:
        # a plain close() is replayed as close_until with a condition that never holds, so that the state is
        # also dumped at every evaluation of the condition (observation points of C04)
        lines.append("close_until 1000000" if l == "close" else l)
        if l.startswith("close"):
            lines.append("dump")
    try:
        rc, out, err = harness.run(name, lines, timeout=60)
    except Exception as ex:
        return True, ["native run does not terminate / fails to run: %r" % ex]
    if rc != 0:
        return True, ["native run panics: " + err.strip().split("\n")[0][:200]]
    V.set_ctx(V.Ctx(Circuit(), U=U))
    events = N.parse_output(out)
    failing = []
    last_ret = None
    for ev in events:
        if ev[0] == "ret":
            last_ret = ev[1]
            continue
        _, where, d = ev
        st = M.State(sch, N.state_from_dump(sch, d, U))
        if kind == "struct":
            items = struct_items(st)
        else:
            if where.startswith("cond") or last_ret != "false":
                continue            # closedness is claimed after close() / `return false` only
            items = property_items(kind if kind == "closed-own" else "closed", st, rules)
        for lab, l in items:
            if l == F:
                failing.append("%s: %s" % (where, lab))
            elif l != T:
                raise RuntimeError("native state did not evaluate to a constant")
    return bool(failing), failing


def search_forced(su, U, k, K, timeout_s=300, solver="kissat", k2=0):
    """C02 witness: a history from new(), a model N of the reference rules and an interpretation h of the caller-created
    elements in N that satisfies every asserted fact, such that after close() some tuple over caller-created elements is
    not mapped into N or two caller-created elements with different images are equal.  Returns (script, info) | (None, why)"""
    import ghost as G
    import lemmas as L
    t0 = time.time()
    h = H.SymHistory(su, U, None)
    c = h.c
    gh, hom = G.Ghost(h.ctx, h.sch), G.Hom(h.ctx, h.sch)
    h.assume += [gh.wellformed(), gh.is_model(su.rules)]

    def on_alt(g, name, args, r):
        h.assume.append(c.implies(g, L.asserted_in_ghost(su, h.sch, h.st, gh, hom, name, args)))
        r = h.I.deref(r)
        if name.startswith("define_") or (name.startswith("new_") and args):
            # the caller learns the element that denotes the term: its image is the value of the term in N
            if name.startswith("define_"):
                R = h.sch.rels[name[len("define_"):]]
                h.assume.append(c.implies(g, G.img_sym(gh, hom, R, list(args) + [r])))
            else:
                t = name[len("new_"):]
                for vn, (gv, payload) in args[0].alts.items():
                    R = dict(L.enum_types(su, h.sch)[t][1])[vn]
                    h.assume.append(c.implies(c.and2(g, gv), G.img_sym(gh, hom, R, list(payload) + [r])))
    h.on_alt = on_alt
    h.precreate()
    for i in range(k):
        h.sym_call(i)
    lens0 = {t: h.st.nelems(t) for t in h.sch.types}
    for t in h.sch.types:
        for i in range(U):
            h.assume.append(c.implies(h.st.in_range(t, i), c.orl([c.and2(hom.lit(t, i, v), gh.exists(t, v)) for v in range(U)])))
    bad = []
    if k2:
        # an intermediate close(), then k2 further assertions about the elements created so far (no allocation)
        h.sym_close(K, False, lambda g: None, lambda rv: None)
        allmuts = h.muts
        h.muts = [(n, it) for n, it in allmuts if n.startswith("insert_") or n.startswith("equate_")]
        for i in range(k2):
            h.sym_call(k + i)
        h.muts = allmuts

    def on_return(rv):
        st = h.st
        old = {(t, i): V.int_lt(i, lens0[t]) for t in h.sch.types for i in range(U)}
        for rel in h.sch.user_rels():
            for row in M.rows_of(rel, U):
                hd = st.rel_holds(rel.name, row)
                if hd == F:
                    continue
                caller = c.andl([old[(t, x)] for t, x in zip(rel.types, row)])
                bad.append(c.and_(hd, caller, -G.img(gh, hom, rel, row)))
        for t in h.sch.types:
            roots = [st.root_of(t, i, U) for i in range(U)]
            for a in range(U):
                for b in range(a + 1, U):
                    same = c.andl([c.iff(hom.lit(t, a, v), hom.lit(t, b, v)) for v in range(U)])
                    bad.append(c.and_(old[(t, a)], old[(t, b)], V.int_eq(roots[a], roots[b]), -same))
    h.sym_close(K, False, lambda g: None, on_return)
    bound = c.orl([g for g, kk, _ in h.ctx.events if kk in ("bound", "compact")])
    enc = time.time() - t0
    try:
        r, model = terms.solve(c, h.ctx.assumes + h.assume + [-bound, c.orl(bad)], solver=solver, timeout_s=timeout_s)
    except terms.SolverError as ex:
        return None, "solver: %s (encode %.1fs, %d nodes)" % (ex, enc, c.n)
    if r == "unsat":
        return None, "no history with U=%d, %d calls, %d iterations derives a fact that some model of the rules and of the assertions lacks (encode %.1fs, %d nodes)" % (U, k, K, enc, c.n)
    script = h.decode(model)
    return script, {"U": U, "k": k, "k2": k2, "K": K, "nodes": c.n, "encode_s": round(enc, 1), "N": gh.decode(c, model), "h": hom.decode(c, model)}


def replay_forced(su, sch, harness, name, script, info, U=8):
    """native certificate check: N (from the solver) is a model of the reference rules and, under h, of everything the
    script asserts; the natively closed model nevertheless contains a tuple / an equality over caller-created elements
    that N lacks under h"""
    import ghost as G
    N_ = {k: set(tuple(r) for r in v) for k, v in info["N"].items()}
    hmap = info["h"]
    UN = info["U"]
    problems = G.concrete_is_model(su.rules, N_, UN)
    if problems:
        return False, ["the solver's structure N is not a model of the reference rules: %s" % problems[:3]]
    lines = list(script)
    if not lines or not lines[-1].startswith("close"):
        return False, ["script does not end in close"]
    body = lines[:-1]
    first_close = min([i for i, l in enumerate(body) if l.startswith("close")] + [len(body)])
    body = body[:first_close] + ["dump"] + body[first_close:]
    rc, out, err = harness.run(name, body + ["dump", "close", "dump"], timeout=60)
    if rc != 0:
        return True, ["native run panics: " + err.strip().split("\n")[0][:200]]
    events = N.parse_output(out)
    rets = [e[1] for e in events if e[0] == "ret"]
    dumps = [e[2] for e in events if e[0] == "dump"]
    nt = set(su.prog.newtypes)
    import re as _re

    def image(t, x):
        return hmap[t][x] if x < len(hmap[t]) else None
    # the assertions of the script hold in N under h
    for l, r in zip([l for l in body if l != "dump"], rets):
        w = l.split()
        if w[0].startswith("close"):
            continue
        r = H.normalise_native_ret(r, nt)
        fn = w[0]
        a = [int(x) for x in w[1:] if x.isdigit()]
        if fn.startswith("insert_"):
            R = sch.rels[fn[7:]]
            if tuple(image(t, x) for t, x in zip(R.types, a)) not in N_.get(R.name, set()):
                return False, ["N does not satisfy the assertion %s under h" % l]
        elif fn.startswith("equate_"):
            if image(fn[7:], a[0]) != image(fn[7:], a[1]):
                return False, ["N does not satisfy the assertion %s under h" % l]
        elif fn.startswith("define_"):
            R = sch.rels[fn[7:]]
            if not r.isdigit() or tuple(image(t, x) for t, x in zip(R.types, a + [int(r)])) not in N_.get(R.name, set()):
                return False, ["N does not satisfy the assertion %s = %s under h" % (l, r)]
        elif fn.startswith("new_") and len(w) > 1:
            return False, ["enum constructors in the script: not handled by this replay"]
    before, after = dumps[0], dumps[-1]
    nat = N.canonical_native(sch, after)
    n0 = {t: int(before[("uf", t)].split(" ", 1)[0]) for t in sch.types}
    roots = {t: N.ints(after[("uf", t)].split(" ", 1)[1]) for t in sch.types}
    failing = []
    for rel in sch.user_rels():
        rows = set(nat[("field", rel.full("new").field)]) | set(nat[("field", rel.full("old").field)])
        for row in sorted(rows):
            if all(x < n0[t] for t, x in zip(rel.types, row)):
                if tuple(image(t, x) for t, x in zip(rel.types, row)) not in N_.get(rel.name, set()):
                    failing.append("close() derived %s%s, which fails in the model N=%s of the rules and of the assertions (interpretation %s)" % (rel.name, list(row), {k: sorted(v) for k, v in N_.items()}, hmap))
    for t in sch.types:
        for a in range(n0[t]):
            for b in range(a + 1, n0[t]):
                if roots[t][a] == roots[t][b] and image(t, a) != image(t, b):
                    failing.append("close() identified %s elements %d and %d, which are different in the model N=%s of the rules and of the assertions (interpretation %s)" % (t, a, b, {k: sorted(v) for k, v in N_.items()}, hmap))
    return bool(failing), failing[:4]


def replay_contract(su, sch, harness, name, script):
    """C07: the observable state at the return of the final close_until must be the state in which its condition was last
    evaluated (with the outcome that is returned)"""
    lines = list(script[:-1])
    last = script[-1]
    lines.append("close_until 1000000" if last == "close" else last)
    lines.append("dump")
    try:
        rc, out, err = harness.run(name, lines, timeout=60)
    except Exception as ex:
        return False, ["native run failed: %r" % ex]
    if rc != 0:
        return True, ["native run panics: " + err.strip().split("\n")[0][:200]]
    events = N.parse_output(out)
    # the events of the final close_until: cond dumps, ret, final dump
    fin = events[-1]
    ret = events[-2]
    conds = []
    for ev in reversed(events[:-2]):
        if ev[0] == "dump" and ev[1].startswith("cond"):
            conds.append(ev)
        else:
            break
    conds.reverse()
    if fin[0] != "dump" or ret[0] != "ret" or not conds:
        return False, ["unexpected native output shape"]

    def observable(d):
        # ages are not observable through the public queries: new and old copies of an index are united
        o = {}
        nat = N.canonical_native(sch, d)
        for rel in sch.rels.values():
            o[rel.name] = sorted(set(nat[("field", rel.full("new").field)]) | set(nat[("field", rel.full("old").field)]))
        for t in sch.types:
            o[("uf", t)] = d[("uf", t)].strip()
        return o
    want = observable(conds[-1][2])
    got = observable(fin[2])
    diff = [str(k) for k in got if got[k] != want.get(k)]
    if diff:
        return True, ["close_until returned %s but the model at return differs from the model its condition was last evaluated on (%s) in %s" % (ret[1], conds[-1][1], ", ".join(diff[:4]))]
    return False, ["state at return equals the state at the last condition evaluation"]


def search_enumq(su, U, k, K, timeout_s=300, solver="kissat"):
    """C15 witness for the case queries: a history from new() ending in close() after which <enum>_case / <enum>_cases /
    new_<enum> violate their contract (the goals of lemmas.lemma_enum evaluated on the reached state)"""
    import lemmas as L
    t0 = time.time()
    h = H.SymHistory(su, U, None)
    c = h.c
    h.precreate()
    for i in range(k):
        h.sym_call(i)
    h.sym_close(K, False, lambda g: None, lambda rv: None)
    ctx2, goal = L.lemma_enum(su, given=(h.ctx, h.I, h.sch, h.m))
    bound = c.orl([g for g, kk, _ in h.ctx.events if kk in ("bound", "compact")])
    items = [(lab, l) for lab, l in goal.items if lab.startswith("enumq.") and "_case" in lab.split(":")[0]]
    bad = c.orl([-l for _, l in items])
    try:
        r, model = terms.solve(c, goal.assume + h.assume + [-bound, bad], solver=solver, timeout_s=timeout_s)
    except terms.SolverError as ex:
        return None, "solver: %s" % ex
    if r == "unsat":
        return None, "no history with U=%d, %d calls, %d iterations after which the case queries misbehave (%d nodes)" % (U, k, K, c.n)
    script = h.decode(model)
    vals = c.evaluate([l for _, l in items], model)
    return script, {"U": U, "k": k, "K": K, "failing": [lab for (lab, _), v in zip(items, vals) if not v][:4], "nodes": c.n}


def replay_enum(su, sch, harness, name, script):
    """C15: after the script (ending in close) <enum>_case(el) must not panic for any element, and every constructor case
    returned by <enum>_case / <enum>_cases, applied to its arguments, must equal el"""
    import lemmas as L
    import re as _re
    ets = L.enum_types(su, sch)
    rc, out, err = harness.run(name, list(script) + ["dump"], timeout=60)
    if rc != 0:
        return True, ["native run panics: " + err.strip().split("\n")[0][:200]]
    dumps = [ev[2] for ev in N.parse_output(out) if ev[0] == "dump"]
    last = dumps[-1]
    failing = []
    nt = set(su.prog.newtypes)

    def last_ret(lines):
        rc_, out_, err_ = harness.run(name, list(script) + lines, timeout=60)
        if rc_ != 0:
            return None, err_.strip().split("\n")[0][:160]
        return H.normalise_native_ret([e[1] for e in N.parse_output(out_) if e[0] == "ret"][-1], nt), None
    for t, (en, ctors) in sorted(ets.items()):
        n = int(last[("uf", t)].split(" ", 1)[0])
        for i in range(n):
            for q in ("%s_case" % t, "%s_cases" % t):
                r, perr = last_ret(["%s %d" % (q, i)])
                if r is None:
                    failing.append("%s(%d) panics after the history: %s" % (q, i, perr))
                    continue
                cases = _re.findall(r"([A-Z]\w*)(?:\(([^()]*)\))?", r)
                if not cases:
                    failing.append("%s(%d) = %s: no constructor case" % (q, i, r))
                for vn, argstr in cases:
                    args = _re.findall(r"\d+", argstr or "")
                    if vn not in dict(ctors):
                        continue
                    rel = dict(ctors)[vn].name
                    r2, _ = last_ret([" ".join([rel] + args)])
                    m2 = _re.match(r"^Some\((\d+)\)$", r2 or "")
                    if not m2:
                        failing.append("%s(%d) yields %s(%s) but %s(%s) = %s" % (q, i, vn, ", ".join(args), rel, ", ".join(args), r2))
                        continue
                    r3, _ = last_ret(["are_equal_%s %s %d" % (t, m2.group(1), i)])
                    if (r3 or "").strip() != "true":
                        failing.append("%s(%d) yields %s(%s) but %s(%s) = %s is not equal to the element" % (q, i, vn, ", ".join(args), rel, ", ".join(args), r2))
    return bool(failing), failing[:6]


def replay_noalloc(su, sch, harness, name, script):
    """C06: the final close() of the script must terminate, allocate no element and create no class"""
    import subprocess
    lines = []
    for l in script:
        if l.startswith("close"):
            lines.append("dump")
        lines.append(l)
        if l.startswith("close"):
            lines.append("dump")
    try:
        rc, out, err = harness.run(name, lines, timeout=30)
    except subprocess.TimeoutExpired:
        return True, ["close() does not terminate within 30 s on a model with at most 3 elements per type"]
    except Exception as ex:
        return False, ["native run failed: %r" % ex]
    if rc != 0:
        return True, ["native run panics: " + err.strip().split("\n")[0][:200]]
    dumps = [ev[2] for ev in N.parse_output(out) if ev[0] == "dump"]
    failing = []
    for before, after in zip(dumps[0::2], dumps[1::2]):
        for t in sch.types:
            n0, r0 = before[("uf", t)].split(" ", 1)
            n1, r1 = after[("uf", t)].split(" ", 1)
            if int(n1) != int(n0):
                failing.append("close() changed the number of allocated %s elements from %s to %s" % (t, n0, n1))
            c0 = len(set(N.ints(r0)))
            c1 = len(set(N.ints(r1)))
            if c1 > c0:
                failing.append("close() increased the number of %s classes from %d to %d" % (t, c0, c1))
    return bool(failing), failing


# ---------------------------------------------------------------------------------------------
# C05: witnesses for violated API effects: a history of calls from new() (no close), then the failing call
class RefModel:
    """reference reading of C05 for histories without close(): explicit facts modulo an explicit union-find"""

    def __init__(self, sch):
        self.sch = sch
        self.n = {t: 0 for t in sch.types}
        self.par = {t: [] for t in sch.types}
        self.facts = {r.name: [] for r in sch.user_rels()}
        self.equated = False

    def root(self, t, x):
        while self.par[t][x] != x:
            x = self.par[t][x]
        return x

    def canon(self, rel, row):
        return tuple(self.root(t, x) for t, x in zip(self.sch.rels[rel].types, row))

    def new(self, t):
        self.par[t].append(self.n[t])
        self.n[t] += 1
        return self.n[t] - 1

    def equate(self, t, a, b):
        ra, rb = self.root(t, a), self.root(t, b)
        if ra != rb:
            self.par[t][ra] = rb
            self.equated = True

    def holds(self, rel, row):
        cr = self.canon(rel, row)
        return any(self.canon(rel, f) == cr for f in self.facts[rel])

    def values(self, rel, args):
        R = self.sch.rels[rel]
        ca = tuple(self.root(t, x) for t, x in zip(R.types[:-1], args))
        return [f[-1] for f in self.facts[rel] if tuple(self.root(t, x) for t, x in zip(R.types[:-1], f[:-1])) == ca]


def search_effects(su, U, k, name, timeout_s=300, solver="kissat"):
    import lemmas as L
    t0 = time.time()
    h = H.SymHistory(su, U, None)
    c = h.c
    h.precreate()
    for i in range(k):
        h.sym_call(i)
    ctx2, goal = L.lemma_api_effects(su, name, given=(h.ctx, h.I, h.sch, h.m))
    bound = c.orl([g for g, kk, _ in h.ctx.events if kk in ("bound", "compact")])
    bad = c.orl([-l for _, l in goal.items])
    try:
        r, model = terms.solve(c, goal.assume + h.assume + [-bound, bad], solver=solver, timeout_s=timeout_s)
    except terms.SolverError as ex:
        return None, "solver: %s" % ex
    if r == "unsat":
        return None, "no close-free history with U=%d, %d calls violates the effects of %s" % (U, k, name)
    script = h.decode(model)

    def val(x):
        if isinstance(x, int):
            return x
        for kk, g in V.cases_of(x).items():
            if c.evaluate([g], model)[0]:
                return kk
        return 0
    final = [name]
    for a in goal.args:
        if isinstance(a, V.EnumV):
            for vn, (g, payload) in a.alts.items():
                if c.evaluate([g], model)[0]:
                    final += [vn] + [str(val(x)) for x in payload]
        else:
            final.append(str(val(a)))
    vals = c.evaluate([l for _, l in goal.items], model)
    failing = [lab for (lab, _), v in zip(goal.items, vals) if not v]
    return script + [" ".join(final)], {"U": U, "k": k, "failing": failing[:5], "nodes": c.n}


def replay_effects(su, sch, harness, name, script):
    """native run of a close-free script; every return value and follow-up query is compared with the reference model"""
    from interp import ty_name
    import re as _re
    ref = RefModel(sch)
    lines = []
    expect = []      # (line index in output 'ret' sequence, description, predicate on the native string)
    prog = su.prog

    def queries_after():
        q = []
        for t in sch.types:
            for x in range(ref.n[t]):
                q.append(("root_%s %d" % (t, x), ("root", t, x)))
                for y in range(ref.n[t]):
                    q.append(("are_equal_%s %d %d" % (t, x, y), ("eq", t, x, y)))
        if not ref.equated:
            for R in sch.user_rels():
                for f in ref.facts[R.name]:
                    if R.kind == "pred":
                        q.append(("%s %s" % (R.name, " ".join(map(str, f))), ("holds", R.name, f)))
                    else:
                        q.append(("%s %s" % (R.name, " ".join(map(str, f[:-1]))), ("defined", R.name, f)))
                q.append(("iter_%s" % R.name, ("iter", R.name)))
        return q
    plan = []
    for l in script:
        w = l.split()
        if w[0].startswith("close"):
            return False, ["history contains a close: outside the reference model of this replay"]
        plan.append((l, ("call", w)))
    out_lines = [l for l, _ in plan]
    rc, out, err = harness.run(name, out_lines, timeout=60)
    if rc != 0:
        return True, ["native run panics: " + err.strip().split("\n")[0][:200]]
    rets = [e[1] for e in N.parse_output(out) if e[0] == "ret"]
    nt = set(prog.newtypes)
    problems = []
    # drive the reference model with the native return values where the property leaves a choice (define_ on defined terms)
    for (l, (_, w)), r in zip(plan, rets):
        r = H.normalise_native_ret(r, nt)
        fn = w[0]
        a = [int(x) for x in w[1:] if x.isdigit()]
        if fn.startswith("new_") and len(w) == 1:
            t = fn[4:]
            e = ref.new(t)
            if r != str(e):
                problems.append("%s returned %s, expected the fresh id %d" % (l, r, e))
        elif fn.startswith("equate_"):
            ref.equate(fn[7:], a[0], a[1])
        elif fn.startswith("insert_"):
            ref.facts[fn[7:]].append(tuple(a))
        elif fn.startswith("define_"):
            rel = fn[7:]
            R = sch.rels[rel]
            vals = ref.values(rel, a)
            t = R.types[-1]
            if vals:
                if not r.isdigit() or not any(ref.root(t, int(r)) == ref.root(t, v) for v in vals):
                    problems.append("%s returned %s although the term is defined with value(s) %s" % (l, r, vals))
            else:
                e = ref.new(t)
                if r != str(e):
                    problems.append("%s returned %s, expected the fresh id %d" % (l, r, e))
                ref.facts[rel].append(tuple(a) + (e,))
        elif fn.startswith("new_"):
            # new_<enum>(case): treated as a define_ of the constructor (ids checked by C15); resynchronise counts
            pass
    # follow-up queries on the final state
    qs = queries_after()
    rc, out, err = harness.run(name, out_lines + [q for q, _ in qs], timeout=60)
    if rc != 0:
        return True, ["native run panics in follow-up queries: " + err.strip().split("\n")[0][:200]]
    rets2 = [e[1] for e in N.parse_output(out) if e[0] == "ret"][len(plan):]
    for (q, what), r in zip(qs, rets2):
        r = H.normalise_native_ret(r, nt)
        if what[0] == "eq":
            _, t, x, y = what
            exp = "true" if ref.root(t, x) == ref.root(t, y) else "false"
            if r != exp:
                problems.append("%s = %s, expected %s" % (q, r, exp))
        elif what[0] == "root":
            _, t, x = what
            if not r.isdigit() or ref.root(t, int(r)) != ref.root(t, x):
                problems.append("%s = %s is outside the class of %d" % (q, r, x))
        elif what[0] == "holds":
            if r != "true":
                problems.append("%s = %s although the tuple was inserted and no equate_ happened" % (q, r))
        elif what[0] == "defined":
            if r == "None":
                problems.append("%s = None although the function was defined there" % q)
        elif what[0] == "iter":
            rel = what[1]
            rows = [tuple(int(x) for x in _re.findall(r"\d+", m)) for m in _re.findall(r"\(([^()]*)\)", r)] if "(" in r else [(int(x),) for x in _re.findall(r"\d+", r)]
            want = sorted(set(ref.facts[rel]))
            if sorted(rows) != want:
                problems.append("iter_%s = %s, expected exactly %s (each once)" % (rel, sorted(rows), want))
    return bool(problems), problems
