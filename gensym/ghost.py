"""C02: ghost models.  `close()` derives only what the rules force.

N is an arbitrary (symbolic) structure over the same universe bound that is a model of the reference rules (every stage
of every rule holds for every assignment, function graphs are single-valued; equality in N is identity) and h an
arbitrary map from element ids to elements of N.  INV-hom(S, h, N) says that h is a homomorphism from the current state
S into N: equal elements have the same image, every row of every table (new or old) is mapped to a row of N, every
pending definition f(args) is defined in N at h(args).  The lemmas show that INV-hom is preserved

  * by every public mutator, provided N satisfies the fact the caller asserts (insert_: the image of the tuple is in N,
    equate_: the images coincide, define_ / new_<enum>: the term is defined in N), and
  * by close_until's prologue and by one arbitrary loop iteration,

where elements allocated on the way get their image by an explicit finite disjunction over the elements of N.  By
induction, for every history, every model N (within the bound) of the rules and every interpretation of the
caller-created elements in N that satisfies the asserted facts, the closed model maps into N -- i.e. every tuple and
every equality of the closed model is forced by the rules, and every additional element is the value of a function row
whose definition was forced.
"""
import itertools
from terms import T, F
import values as V
from values import SetV, int_eq, int_lt, lit, Unsupported, cases_of
import model as M
import sem as S


class Ghost:
    """N: one Boolean per candidate row of every relation (incl. the type sets = which elements exist)"""

    def __init__(self, ctx, sch, tag="N"):
        U = ctx.U
        self.s = sch
        self.rel = {}
        self.tables = {}
        for rel in sch.rels.values():
            cells = {row: ctx.fresh_bool("%s.%s%s" % (tag, rel.name, list(row))) for row in itertools.product(range(U), repeat=rel.arity)}
            self.rel[rel.name] = cells
            nx, ox = rel.full("new"), rel.full("old")
            self.tables[nx.field] = SetV(len(nx.order), {nx.project(row): l for row, l in cells.items()}, U, frozen=True)
            self.tables[ox.field] = SetV(len(ox.order), {}, U, frozen=True)

    # the part of the State interface that sem.Sem uses
    def table(self, field):
        return self.tables[field]

    def exists(self, t, v):
        return self.rel[t][(v,)]

    def wellformed(self):
        c = V.CTX.c
        out = []
        for rel in self.s.user_rels():
            for row, l in self.rel[rel.name].items():
                out.append(c.implies(l, c.andl([self.exists(t, v) for t, v in zip(rel.types, row)])))
        return c.andl(out)

    def is_model(self, rules):
        """N satisfies every stage of every reference rule (incl. the functionality rules) for every assignment"""
        return M.conj(S.closed(self, rules))

    def decode(self, c, mdl):
        return {name: [list(row) for row, l in cells.items() if c.evaluate([l], mdl)[0]] for name, cells in self.rel.items()}


class Hom:
    def __init__(self, ctx, sch, tag="h"):
        self.h = {t: [ctx.fresh_int("%s.%s[%d]" % (tag, t, i), 0, ctx.U - 1) for i in range(ctx.U)] for t in sch.types}

    def lit(self, t, i, v):
        return int_eq(self.h[t][i], v)

    def decode(self, c, mdl):
        out = {}
        for t, hs in self.h.items():
            out[t] = []
            for x in hs:
                val = 0
                for k, g in cases_of(x).items():
                    if c.evaluate([g], mdl)[0]:
                        val = k
                out[t].append(val)
        return out


class Override:
    """h with the image of one element fixed to a constant (used for the finite disjunction over images of new elements)"""

    def __init__(self, base, t, i, v):
        self.base, self.t, self.i, self.v = base, t, i, v

    def lit(self, t, i, v):
        if (t, i) == (self.t, self.i):
            return T if v == self.v else F
        return self.base.lit(t, i, v)


def img(gh, hom, rel, row):
    """literal: the image of the concrete row under h is a row of N"""
    c = V.CTX.c
    U = V.CTX.U
    out = F
    for vt in itertools.product(range(U), repeat=rel.arity):
        n = gh.rel[rel.name][vt]
        m = c.andl([hom.lit(t, x, v) for t, x, v in zip(rel.types, row, vt)])
        out = c.or2(out, c.and2(m, n))
    return out


def img_sym(gh, hom, rel, args):
    """the same for a row of symbolic element ids"""
    c = V.CTX.c
    U = V.CTX.U
    out = F
    for row in itertools.product(range(U), repeat=rel.arity):
        m = c.andl([int_eq(a, x) for a, x in zip(args, row)])
        if m == F:
            continue
        out = c.or2(out, c.and2(m, img(gh, hom, rel, row)))
    return out


def defined_sym(gh, hom, rel, args):
    """literal: the function `rel` is defined in N at the image of the symbolic arguments"""
    c = V.CTX.c
    U = V.CTX.U
    out = F
    for row in itertools.product(range(U), repeat=rel.arity - 1):
        m = c.andl([int_eq(a, x) for a, x in zip(args, row)])
        if m == F:
            continue
        d = F
        for vt in itertools.product(range(U), repeat=rel.arity):
            mm = c.andl([hom.lit(t, x, v) for t, x, v in zip(rel.types[:-1], row, vt[:-1])])
            d = c.or2(d, c.and2(mm, gh.rel[rel.name][vt]))
        out = c.or2(out, c.and2(m, d))
    return out


def same_image(hom, t, a, b):
    c = V.CTX.c
    U = V.CTX.U
    out = F
    for x in range(U):
        for y in range(U):
            m = c.and2(int_eq(a, x), int_eq(b, y))
            if m == F:
                continue
            out = c.or2(out, c.and2(m, c.andl([c.iff(hom.lit(t, x, v), hom.lit(t, y, v)) for v in range(U)])))
    return out


def hom_items(st, gh, hom, delta, only=None):
    """[(label, frozenset of (type, id) mentioned, literal)]; `only` = (t, i) restricts to the items mentioning that element"""
    c = V.CTX.c
    U = V.CTX.U
    out = []
    sch = st.s
    for t in sch.types:
        for i in range(U):
            if only is not None and only != (t, i):
                continue
            inr = st.in_range(t, i)
            ex = c.orl([c.and2(hom.lit(t, i, v), gh.exists(t, v)) for v in range(U)])
            out.append(("hom.elem.%s[%d] is mapped to an element of N" % (t, i), frozenset([(t, i)]), c.implies(inr, ex)))
            p = st.parent(t, i)
            if p is V.UNDEF:
                continue
            same = T
            for q, gq in cases_of(p).items():
                if q >= U or q == i:
                    continue
                same = c.and2(same, c.implies(gq, c.andl([c.iff(hom.lit(t, i, v), hom.lit(t, q, v)) for v in range(U)])))
            out.append(("hom.eq.%s[%d] has the image of its parent" % (t, i), frozenset([(t, i)]), c.implies(inr, same)))
    for rel in sch.user_rels():
        for row in M.rows_of(rel, U):
            els = frozenset(zip(rel.types, row))
            if only is not None and only not in els:
                continue
            h = st.rel_holds(rel.name, row)
            if h == F:
                continue
            out.append(("hom.row.%s%s is mapped into N" % (rel.name, list(row)), els, c.implies(h, img(gh, hom, rel, row))))
    if delta is not None:
        for name, lst in delta.f.items():
            if not name.endswith("_def"):
                continue
            rel = sch.rels[name[len("new_"):-len("_def")]]
            for k, (g, e) in enumerate(lst.items()):
                if g == F:
                    continue
                if all(isinstance(x, int) for x in e):
                    els = frozenset(zip(rel.types[:-1], e))
                    if only is not None and only not in els:
                        continue
                else:
                    els = frozenset((t, i) for t in set(rel.types[:-1]) for i in range(U))
                    if only is not None and only not in els:
                        continue
                out.append(("hom.pending.%s[%d] is defined in N" % (name, k), els, c.implies(g, defined_sym(gh, hom, rel, list(e)))))
    return out


def pre_lit(st, gh, hom, delta, rules):
    """INV-hom on the pre-state, for a well-formed model N of the rules"""
    c = V.CTX.c
    return c.and_(gh.wellformed(), gh.is_model(rules), c.andl([l for _, _, l in hom_items(st, gh, hom, delta)]))


def post_goals(st, gh, hom, delta, len0, guard, label, require_generated=False):
    """INV-hom on the post-state; elements allocated on the way (id >= the old length) get their image by a finite disjunction"""
    c = V.CTX.c
    U = V.CTX.U
    sch = st.s
    isnew = {(t, i): c.and2(st.in_range(t, i), -int_lt(i, len0[t])) for t in sch.types for i in range(U)}
    anynew = c.orl(list(isnew.values()))
    goals = []
    for lab, els, l in hom_items(st, gh, hom, delta):
        nonew = c.andl([-isnew[e] for e in els])
        goals.append((label + lab, c.implies(c.and2(guard, nonew), l)))
    for (t, i), nw in isnew.items():
        if nw == F:
            continue
        alts = []
        for v0 in range(U):
            ov = Override(hom, t, i, v0)
            conj = T
            for lab, els, l in hom_items(st, gh, ov, delta, only=(t, i)):
                others = c.andl([-isnew[e] for e in els if e != (t, i)])
                conj = c.and2(conj, c.implies(others, l))
            alts.append(conj)
        goals.append((label + "hom.new.%s[%d]: an element allocated on the way has an image in N under which all its rows are mapped into N" % (t, i),
                      c.implies(c.and2(guard, nw), c.orl(alts))))
        # generated: a new element is the value of a function row
        val = F
        for rel in sch.user_rels():
            if rel.kind != "func" or rel.types[-1] != t:
                continue
            for row in M.rows_of(rel, U):
                if row[-1] == i:
                    val = c.or2(val, st.rel_holds(rel.name, row))
        goals.append((label + "hom.generated.%s[%d]: an element allocated by close_until is the value of a function row" % (t, i),
                      c.implies(c.and2(guard, nw), val) if require_generated else T))
    for rel in sch.user_rels():
        for row in M.rows_of(rel, U):
            els = sorted(set(zip(rel.types, row)))
            if len(els) < 2:
                continue
            h = st.rel_holds(rel.name, row)
            if h == F:
                continue
            two = F
            for a in range(len(els)):
                for b in range(a + 1, len(els)):
                    two = c.or2(two, c.and2(isnew[els[a]], isnew[els[b]]))
            if two != F:
                goals.append((label + "hom.new: no row mentions two elements allocated on the way (%s%s)" % (rel.name, list(row)), c.implies(c.and2(guard, h), -two)))
    return [(lab, l) for lab, l in goals if l != T]


# ---------------------------------------------------------------------------------------------
# concrete certificate checking (native replay): N, h from the solver; the final model from the native run
def concrete_is_model(theory_rules, N, U):
    """evaluates the reference rules on a concrete structure N = {rel: set of rows}; returns list of violated instances"""
    from model import snake
    bad = []
    for rname, paths in theory_rules:
        for k, (prem, concl, tys) in enumerate(S.stages(paths)):
            vs = []
            for a in prem + [concl]:
                for v in S.atom_vars(a):
                    if v not in vs:
                        vs.append(v)
            for vals in itertools.product(range(U), repeat=len(vs)):
                sg = dict(zip(vs, vals))
                ok = True
                for a in prem:
                    if a[0] == "rel":
                        ok = tuple(sg[v] for v in a[2]) in N.get(snake(a[1]), set())
                    elif a[0] == "type":
                        ok = (sg[a[1]],) in N.get(snake(a[2]), set())
                    elif a[0] == "eq":
                        ok = sg[a[1]] == sg[a[2]]
                    if not ok:
                        break
                if not ok:
                    continue
                # all variables of the premise denote existing elements (rows are over existing elements)
                if concl[0] == "rel":
                    good = tuple(sg[v] for v in concl[2]) in N.get(snake(concl[1]), set())
                elif concl[0] == "eq":
                    good = sg[concl[1]] == sg[concl[2]]
                elif concl[0] == "def":
                    args = tuple(sg[v] for v in concl[2])
                    good = any(r[:-1] == args for r in N.get(snake(concl[1]), set()))
                else:
                    good = False
                if not good:
                    bad.append("%s#%d%s" % (rname, k, sg))
    return bad
