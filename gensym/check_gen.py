"""Checks of the generated-code properties (C01, C04, C05, C06, C07, C15): bounded inductive verification.

usage: check_gen.py <property> <quick|thorough>
exit 0: every obligation discharged (unsat) -- KNOWN-FINDING lines for listed findings
exit 1: a violation found by the solver AND replayed against the real build (VIOLATION line)
exit 2: inconclusive (unsupported code, solver limits, failed lemma without replayable public witness, ...)
"""
import json, os, re, sys, time
import pipeline as P
from pipeline import L, M, N, H, W, VA, V, terms

# goal-label classes per property (regular expressions over the labels produced in lemmas.py)
STRUCT = r"(struct\.|uf\.|canon\.)"
SEM = r"(sn\.|closed\.|age\.|stale\.|delta\.|compaction-bound)"
PROPS = {
    "C04": {
        "classes": r"^(?!step\.early).*(" + STRUCT + r"|queries\.canon)",
        "lemmas": lambda n: True,
        "witness": "struct",
        "explanation": "bounded inductive verification: every index copy / element index / type set / union-find invariant "
                       "(INV-struct, INV-canon) is shown, by SAT over the symbolically executed generated code, to hold at new(), "
                       "to be preserved by every public mutator from every state satisfying the between-closes invariant, to be "
                       "established by close_until's prologue, and to hold at every condition evaluation and every return of one "
                       "arbitrary loop iteration",
    },
    "C01": {
        # the semi-naive induction rests on the structural invariants (C04): they are re-checked as hypotheses
        "classes": r"^(?!step\.early).*" + SEM + r"|^(step|prologue)\.no-panic|^(?!step\.early).*" + STRUCT,
        "lemmas": lambda n: True,
        "witness": "closed",
        "rule_level": True,
        "explanation": "bounded inductive verification: the semi-naive invariant INV-sn (every all-old match of every stage of the "
                       "reference semantics has its conclusion present or pending), INV-age and the bookkeeping invariants are inductive "
                       "over new(), every public mutator, the prologue and one arbitrary loop iteration of the generated close_until; "
                       "at `return false` every rule of the reference semantics (incl. functionality) holds for every assignment",
    },
    "C05": {
        # the contracts are stated from between-closes states: the structural part of that invariant is re-checked as a hypothesis
        "classes": r"^(effects\.|queries\.(root|are_equal|no-panic)|uf\.|api\..*no-panic)|^(new|api\.\w+): " + STRUCT,
        "lemmas": lambda n: n.startswith("effects.") or n in ("queries", "uf") or n.startswith("api."),
        "witness": "effects",
        "explanation": "bounded verification of the functional contract of every public mutator and query on the real generated functions: "
                       "from every state satisfying the between-closes invariant, with symbolic arguments, insert_ is visible at once through "
                       "the point query and exactly once through the iterator (when nothing was equated since the last close), define_ returns an "
                       "existing value or exactly one fresh element, new_ returns a fresh id, equate_ changes are_equal_ to exactly the generated "
                       "equivalence and nothing else changes it, root_ is an idempotent representative inside the class and the identity on "
                       "unallocated ids; the real unification.rs is interpreted from an arbitrary forest (and decided again by Kani in the thorough tier)",
    },
    "C02": {
        "classes": r"hom\.|^effects\.define_\w+: (returns an existing value|allocates nothing when)|^(?!step\.early).*" + STRUCT,
        "lemmas": lambda n: n in ("new", "prologue", "step") or n.startswith("api.") or n.startswith("effects.define_"),
        "witness": "forced",
        "rule_sound": True,
        "explanation": "bounded inductive verification with a ghost model: for an arbitrary structure N over the universe bound that is a model of "
                       "the reference rules (every stage, every assignment; single-valued functions) and an arbitrary map h from element ids to N, "
                       "the invariant `h is a homomorphism from the current state into N` (equal elements have equal images, every row of every table "
                       "is mapped into N, every pending definition is defined in N) is preserved by every public mutator -- provided N satisfies the "
                       "asserted fact -- by close_until's prologue and by one arbitrary loop iteration; elements allocated on the way get an image by a "
                       "finite disjunction and are shown to be values of function rows; define_ returns the existing value of a defined term and "
                       "allocates nothing then. Hence every tuple and equality of a closed model holds in every model (within the bound) of the rules "
                       "and the assertions. The structural invariants this induction rests on (C04) are re-checked as hypotheses",
    },
    "C03": {
        "classes": r"^idem|^step\.exit-state|^(?!step\.early).*" + STRUCT,
        "lemmas": lambda n: n in ("idem", "step", "new", "prologue") or n.startswith("api."),
        "witness": "idem",
        "selfcomp": True,
        "explanation": "(a) idempotence, by SAT on the generated code: the state close() leaves behind (loop-head invariant, nothing pending, not dirty -- "
                       "shown at every `return false`) is such that a further close() returns in its first iteration and changes no table cell, no "
                       "representative and allocates nothing; (b) history independence, by self-composition: two symbolic public histories over the same "
                       "elements assert the same k symbolic facts -- the second in a symbolic order, with a duplicate and with close() calls at symbolic "
                       "positions in between -- and the solver shows that the two closed models have the same elements, equivalence classes and tuples "
                       "modulo equality (programs without `!`; for programs with `!` history independence rests on (a) + C01 + C02: both results are "
                       "closed and free)",
    },
    "C06": {
        # the termination argument rests on the loop-head invariant: its structural part is re-checked as a hypothesis
        "classes": r"^(step|prologue)\.(noalloc|progress|dirty-exact)|^(prologue|step\.continue): " + STRUCT,
        "lemmas": lambda n: n == "step" or n == "prologue",
        "witness": "noalloc",
        "only_surjective": True,
        "explanation": "bounded inductive verification for the corpus programs without `!`: from every state satisfying the loop-head "
                       "invariant, one arbitrary iteration of the generated close_until (and its prologue) allocates no element and creates "
                       "no class, is_dirty() is exact, and an iteration that goes round the loop again strictly decreases the lexicographic "
                       "measure (set of roots, set of tuples not yet in the old tables, empty-join flag) -- hence close() terminates within "
                       "(U+1) * (sum of U^arity + 1) * 2 iterations on every model with at most U elements per type",
    },
    "C15": {
        "classes": r"enum\.|^enumq\.|^(?!step\.early).*" + STRUCT,
        "lemmas": lambda n: True,
        "witness": "enum",
        "only_enum": True,
        "explanation": "bounded inductive verification for the corpus programs with enum types: INV-enum (every allocated element of an enum "
                       "type is, modulo the current equalities, the value of a row of some constructor graph) holds after new(), is preserved by "
                       "every public mutator, by close_until's prologue and by one arbitrary loop iteration; under INV-enum on a closed state "
                       "<enum>_case(el) reaches no unwrap on None and returns a constructor whose application to the returned arguments equals "
                       "el, every item of <enum>_cases does, and new_<enum>(c) followed by <enum>_cases contains c up to equality",
    },
    "C07": {
        "classes": r"^step\.(early|contract)|^prologue\.(exit|contract)",
        "lemmas": lambda n: n == "step" or n == "prologue",
        "witness": "closed-resume",
        "explanation": "bounded verification of one arbitrary loop iteration: close_until returns true only right after its condition "
                       "evaluated to true and false only from a closed state; the state at an early return satisfies the full loop-head "
                       "invariant with no pending definitions, i.e. a later close()/close_until resumes from a state covered by the C01 induction",
    },
}


QUICK_U3 = {"C04": ("poset", "diag", "tri", "func", "twotypes", "sibling")}


def tier_universes(tier, name, corpus, prop=None):
    # quick: every program at U=2, a few cheap kernels also at U=3 (C04); thorough: everything at U=2 and U=3
    if tier == "quick":
        return [2, 3] if name in QUICK_U3.get(prop, ()) else [2]
    return [2, 3]


def main():
    prop, tier = sys.argv[1], sys.argv[2]
    seed = int(os.environ.get("VERIF_SEED", "1"))
    cfg = PROPS[prop]
    t0 = time.time()
    P.limit_memory(48)
    scratch = P.scratch_dir()
    try:
        P.ensure_rsdump()
        exe, build_s = P.build_compiler()
        corpus = P.Corpus(scratch, exe, seed, tier, want_random=True)
        repo_names = corpus.add_repo_theories(scratch, exe) if tier == "thorough" and prop in ("C01", "C02", "C04") else []
    except P.Inconclusive as ex:
        print("INCONCLUSIVE: %s" % ex)
        sys.exit(2)
    known = [k for k in P.load_known() if k["property"] == prop and k.get("status") != "fixed"]
    solver = os.environ.get("VERIF_SOLVER", "kissat")
    timeout = 300 if tier == "quick" else 600
    tasks = []
    schemas = {}
    for name, pinfo in sorted(corpus.programs.items()):
        su = corpus.setup(name, 2)
        if cfg.get("only_surjective") and L.has_defs(su.rules):
            continue
        ctx, I, sch = su.fresh()
        if cfg.get("only_enum") and not L.enum_types(su, sch):
            continue
        schemas[name] = (su, sch)
        for U in ([2] if pinfo.get("kind") == "repo" else tier_universes(tier, name, corpus, prop)):
            for lname, _ in L.all_lemmas(su):
                if lname == "uf" and name != sorted(corpus.programs)[0]:
                    continue          # program independent: once is enough
                if cfg["lemmas"](lname):
                    tasks.append({"program": name, "rs": pinfo["rs"], "eql": pinfo["eql"], "U": U, "lemma": lname,
                                  "classes": cfg["classes"], "solver": solver, "timeout": timeout,
                                  "optional": tier == "quick" and U == 3})      # the quick tier's U = 3 extras may run into the limits
                    if lname == "uf" and tier == "quick" and U == 2:
                        # the union-find lemma is program independent and cheap: forests of depth 2 and 3 need 3 and 4 elements
                        for U2 in (3, 4):
                            tasks.append(dict(tasks[-1], U=U2))
    P.log("%d programs, %d lemma tasks" % (len(corpus.programs), len(tasks)))
    results = P.run_tasks(tasks)
    P.log("lemmas done: %s" % {s: sum(1 for r in results if r['status'] == s) for s in ('proved', 'failed', 'inconclusive')})

    # solver diffing (thorough tier): a sample of the lemma tasks is re-decided through the SMT-LIB2 encoding by z3
    cross = {"tasks": 0, "disagreements": []}
    if tier == "thorough" and solver == "kissat":
        pairs = sorted([(r.get("nodes", 0), i) for i, r in enumerate(results) if r["status"] in ("proved", "failed") and r.get("nodes", 0) < 40000], reverse=True)[:10]
        t2 = [dict(tasks[i], solver="z3", timeout=900) for _, i in pairs]
        r2 = P.run_tasks(t2) if t2 else []
        cross["tasks"] = len(r2)
        for (_, i), b in zip(pairs, r2):
            a = results[i]
            if b["status"] != a["status"]:
                cross["disagreements"].append({"program": a["program"], "U": a["U"], "lemma": a["lemma"], "kissat": a["status"], "z3": b["status"], "reason": b.get("reason", "")[:200]})
        P.log("solver diffing: %d tasks re-decided by z3, %d disagreements" % (cross["tasks"], len(cross["disagreements"])))

    # translator validation (of the tool): concrete interpretation vs native execution
    harness = N.NativeHarness(scratch, repo=P.REPO)
    for name, (su, sch) in schemas.items():
        harness.add(name, su.rs_path, su.prog, sch)
    rl_setups = {}
    if cfg.get("rule_level"):
        for name, pinfo in sorted(corpus.rule_level_only.items()):
            su2 = L.Setup(pinfo["rs"], pinfo["eql"], 2, repo=P.REPO)
            rl_setups[name] = (su2, M.Schema(su2.prog))
            harness.add(name, su2.rs_path, su2.prog, rl_setups[name][1])
    val_bad = []
    val_n = 0
    val_samples = []
    try:
        harness.build()
        nval = 3 if tier == "quick" else 12
        for name, (su, sch) in schemas.items():
            bad, samples = VA.validate(su, sch, harness, name, seed, nval, 10, terminates=corpus.terminates(name))
            val_n += nval
            val_bad += [(name, s, d) for s, d in bad]
            val_samples += samples[:1]
    except Exception as ex:
        val_bad.append(("<harness>", None, "native harness: %r" % ex))

    P.log("translator validation done: %d scripts, %d mismatches" % (val_n, len(val_bad)))
    # vacuity: every cover goal (continue / exit / early ...) must be reachable in at least one program
    cover = {}
    for r in results:
        for lab, ok in r.get("cover", {}).items():
            cover[(r["lemma"], lab)] = cover.get((r["lemma"], lab), False) or ok
    vacuous = [k for k, ok in cover.items() if not ok]
    kani = None
    if prop == "C05" and tier == "thorough":
        import kani_uf
        P.log("Kani on the real unification.rs")
        kani = kani_uf.run(scratch)
        P.log("Kani: %s" % kani)
    # the repository's own (large) theories are an extra of the thorough tier: a lemma that runs into the time / memory limits on one
    # of them is recorded as undecided (nothing is claimed for it); it does not make the check inconclusive
    def is_limit(r):
        # kernels must be decided; sampled programs (random, repository theories) that run into the limits are listed as undecided
        # kernels must be decided at U = 2; everything else that runs into the limits is listed as undecided
        return (corpus.programs[r["program"]].get("kind") in ("repo", "random") or r.get("optional") or r["U"] >= 3) and any(w in r.get("reason", "") for w in ("Timeout", "timeout", "MemoryError", "time limit"))
    undecided = [r for r in results if r["status"] == "inconclusive" and is_limit(r)]
    inconclusive = [r for r in results if r["status"] == "inconclusive" and not is_limit(r)]
    failed = [r for r in results if r["status"] == "failed"]
    violations = []
    known_hits = []
    unconfirmed = []
    # a failed lemma is reported only with a public-API witness that reproduces natively
    by_prog = {}
    for r in failed:
        by_prog.setdefault(r["program"], []).append(r)
    wtasks = []
    rest_of = {}
    for name, rs in sorted(by_prog.items()):
        labels = sorted(set(l for r in rs for l in r["failing"]))
        kn = [k for k in known if any(re.search(k["label_regex"], l) for l in labels)]
        rest = [l for l in labels if not any(re.search(k["label_regex"], l) for k in known)]
        for k in kn:
            known_hits.append((k, name, [l for l in labels if re.search(k["label_regex"], l)][:3]))
        if not rest:
            continue
        rest_of[name] = rest
        plans = [(2, 2, 2), (2, 3, 2), (2, 4, 3), (3, 3, 2), (3, 4, 3)] if tier == "quick" else \
                [(2, 2, 2), (2, 3, 2), (2, 4, 3), (2, 5, 3), (3, 3, 2), (3, 4, 3), (3, 5, 3), (3, 6, 4)]
        kind = cfg["witness"]
        if kind == "forced":
            # also histories with an intermediate close: plan (U, 10*k1 + k2, K) = k1 calls, close, k2 calls, close
            plans = [(2, 2, 2), (2, 11, 2), (2, 3, 2), (2, 21, 3), (2, 4, 3), (2, 22, 3), (3, 3, 2), (3, 21, 3)] + ([] if tier == "quick" else [(3, 4, 3), (3, 22, 3), (3, 5, 3), (3, 32, 3)])
        if prop == "C07" and any(l.startswith("step.contract") for l in rest):
            kind = "contract"
        if prop == "C02" and all(l.startswith("effects.") for l in rest):
            kind = "effects"
        # a witness that only exhibits a listed known finding (F1: a `!`-conclusion dropped at an early return, visible as an
        # undefined term after the final close) is not a new violation: those items are excluded from the search
        excl = r"^closed\.def:" if (prop == "C07" and any(k["id"] == "F1" for k in kn)) else None
        wtasks.append({"program": name, "rs": corpus.programs[name]["rs"], "eql": corpus.programs[name]["eql"], "kind": kind, "exclude_items": excl,
                       "lemmas": sorted(set(r["lemma"][len("effects."):] for r in rs if r["lemma"].startswith("effects."))),
                       "plans": plans, "timeout": timeout, "budget": 240 if tier == "quick" else 1800,
                       "scratch": scratch, "exe": getattr(harness, "exe", None)})
    # C01-R: rule-level completeness on canonical databases (any model size), natively replayed
    canon_results = []
    if cfg.get("rule_level"):
        import canon
        import multiprocessing as mp
        ctasks = []
        allp = dict(corpus.programs)
        allp.update(corpus.rule_level_only)
        for name, pinfo in sorted(allp.items()):
            ctasks.append({"program": name, "rs": pinfo["rs"], "eql": pinfo["eql"], "terminates": corpus.terminates(name)})
        with mp.get_context("fork").Pool(min(16, len(ctasks)), maxtasksperchild=4) as pool:
            canon_results = pool.map(canon.check_program, ctasks, chunksize=1)
        for r in canon_results:
            name = r["program"]
            su2, sch2 = schemas.get(name) or rl_setups[name]
            if r["status"] != "ok":
                unconfirmed.append((name, ["rule-level check"], [r.get("reason", "")[:300]]))
            reported = set()
            for v in r["violations"]:
                if v["rule"] in reported:
                    continue              # one replay per rule: further stages / databases of the same rule are counted in the log line
                ok, obs = canon.replay(harness, name, sch2, su2.prog, v)
                lab = "rule-level: rule %s stage %d does not derive %s on the canonical database of its premise (%d variables)" % (v["rule"], v["stage"], v["missing"], v["variables"])
                if ok:
                    reported.add(v["rule"])
                    path = P.save_replay(prop, name + "_rule_" + v["rule"], allp[name]["eql"], v["script"] + [v["query"]], [obs], {"rule": v["rule"], "stage": v["stage"], "missing": v["missing"]}, kind="rule-level")
                    violations.append((name, [lab], path, (v["script"] + [v["query"]], [obs], {})))
                else:
                    unconfirmed.append((name, [lab], [obs]))
        P.log("rule-level check: %d programs, %d stages, %d violations" % (len(canon_results), sum(r["stages"] for r in canon_results), sum(len(r["violations"]) for r in canon_results)))
    # C02-R: rule-level soundness on the sub-databases of canonical databases (any model size), natively replayed with a certificate
    sound_results = []
    if cfg.get("rule_sound"):
        import canon
        import multiprocessing as mp
        allp = dict(corpus.programs)
        stasks = [{"program": name, "rs": pinfo["rs"], "eql": pinfo["eql"]} for name, pinfo in sorted(allp.items())]
        with mp.get_context("fork").Pool(min(16, len(stasks)), maxtasksperchild=4) as pool:
            sound_results = pool.map(canon.sound_program, stasks, chunksize=1)
        for r in sound_results:
            name = r["program"]
            su2, sch2 = schemas[name]
            if r["status"] != "ok":
                unconfirmed.append((name, ["rule-level soundness check"], [r.get("reason", "")[:300]]))
            reported = set()
            for v in r["violations"]:
                if v["rule"] in reported:
                    continue              # one replay per rule: further stages / databases of the same rule are counted in the log line
                lab = "rule-level: rule %s (stage %d) pushes %s %s%s on the database %s, which no stage of the rule concludes there" % (v["rule"], v["stage"], v["kind"], v["rel"], v["tuple"], v["database"])
                ok, obs, cert = canon.replay_sound(harness, name, su2, sch2, v, terminates=corpus.terminates(name))
                if ok:
                    reported.add(v["rule"])
                    path = P.save_replay(prop, name + "_rule_" + v["rule"], allp[name]["eql"], v["script"] + ["close"], [obs], {"violation": v, "least_model_of_the_rules_over_the_database": cert}, kind="rule-sound")
                    violations.append((name, [lab], path, (v["script"] + ["close"], [obs], {})))
                else:
                    unconfirmed.append((name, [lab], [obs]))
        P.log("rule-level soundness: %d programs, %d stages, %d databases, %d pushes, %d unjustified" % (
            len(sound_results), sum(r["stages"] for r in sound_results), sum(r["databases"] for r in sound_results), sum(r["pushes"] for r in sound_results), sum(len(r["violations"]) for r in sound_results)))
    sc_results = []
    if cfg.get("selfcomp"):
        import selfcomp as SC
        plans = [(2, 2, 3)] if tier == "quick" else [(2, 2, 3), (2, 3, 4), (3, 2, 3)]
        sctasks = []
        for name, (su, sch) in sorted(schemas.items()):
            if L.has_defs(su.rules) or not corpus.terminates(name):
                continue
            sctasks.append({"program": name, "rs": corpus.programs[name]["rs"], "eql": corpus.programs[name]["eql"], "plans": plans,
                            "timeout": 200 if tier == "quick" else 1500, "budget": 200 if tier == "quick" else 2400, "scratch": scratch, "exe": getattr(harness, "exe", None)})
        P.log("self-composition for %d programs, plans %s" % (len(sctasks), plans))
        import multiprocessing as mp
        if sctasks:
            with mp.get_context("fork").Pool(min(12, len(sctasks)), maxtasksperchild=1) as pool:
                sc_results = pool.map(SC.run_task, sctasks, chunksize=1)
        for r in sc_results:
            if r["status"] == "failed":
                found = r["found"]
                path = P.save_replay(prop, r["program"] + "_selfcomp", corpus.programs[r["program"]]["eql"], {"history_1": found[0][0], "history_2": found[0][1]}, found[1], found[2], kind="selfcomp")
                violations.append((r["program"], ["history independence"], path, ({"history_1": found[0][0], "history_2": found[0][1]}, found[1], found[2])))
            elif r["status"] == "inconclusive":
                unconfirmed.append((r["program"], ["self-composition"], [r.get("reason", "")[:300]]))
    P.log("witness search for %d programs" % len(wtasks))
    for w in P.run_witness_tasks(wtasks):
        name = w["program"]
        if w["found"]:
            found = tuple(w["found"])
            path = P.save_replay(prop, name, corpus.programs[name]["eql"], found[0], found[1], found[2], kind=w.get("kind"))
            violations.append((name, rest_of[name][:5], path, found))
        else:
            unconfirmed.append((name, rest_of[name][:5], w["tried"]))

    wall = time.time() - t0
    proved = [r for r in results if r["status"] == "proved"]
    samples = []
    for r in (proved[:2] + failed[:2]):
        samples.append({k: r[k] for k in ("program", "U", "lemma", "goals", "nodes", "status", "wall_s") if k in r})
    for s in val_samples[:2]:
        samples.append({"translator_validation_script": s})
    cov = {
        "explanation": cfg["explanation"] + ". Deciding step: SAT (kissat) on the Tseitin CNF of the predicated symbolic execution "
                       "of the generated Rust (parsed with syn on every run); z3 re-decides via SMT-LIB2 when VERIF_SOLVER=z3.",
        "programs": len(schemas),
        "program_names": sorted(schemas),
        "program_hashes": {n: p["rs_sha"] for n, p in corpus.programs.items() if n in schemas},
        "obligations": sum(r.get("goals", 0) for r in results),
        "lemma_tasks": len(results),
        "lemma_tasks_proved": len(proved),
        "lemma_tasks_failed": len(failed),
        "lemma_tasks_inconclusive": len(inconclusive),
        "solver_queries": sum(r.get("queries", 0) for r in results),
        "solver_time_s": round(sum(r.get("solve_s", 0) for r in results), 1),
        "encode_time_s": round(sum(r.get("encode_s", 0) for r in results), 1),
        "max_circuit_nodes": max([r.get("nodes", 0) for r in results] + [0]),
        "bounds": {"universe_per_type": sorted(set(t["U"] for t in tasks)), "unification_loop_unrolling": "U",
                   "new elements beyond the universe": "assumed not to happen (bound event)",
                   "witness histories": "<= 6 calls, <= 4 close iterations"},
        "functions_encoded": ["every fn of the generated module reachable from new/close_until/public mutators",
                              "eqlog-runtime/src/unification.rs (interpreted)", "PrefixTreeN by contract (decided separately by C08)"],
        "translator_validation": {"scripts": val_n, "mismatches": len(val_bad)},
        "solver_diffing": cross,
        "samples": samples,
        "vacuity_witnesses": {"%s/%s" % k: v for k, v in cover.items()},
        "known_findings_hit": [{"id": k["id"], "program": n, "labels": ls} for k, n, ls in known_hits],
        "inconclusive": [{k: r[k] for k in ("program", "U", "lemma", "reason")} for r in inconclusive][:10],
        "undecided_within_limits (nothing claimed)": sorted("%s U=%d %s" % (r["program"], r["U"], r["lemma"]) for r in undecided)[:60],
        "unconfirmed": [str(u)[:600] for u in unconfirmed][:10],
        "compiler_build_s": round(build_s, 1),
        "kani_unification": kani,
    }
    if cfg.get("rule_sound"):
        cov["rule_level_soundness_on_sub_databases"] = {"programs": len(sound_results), "stages": sum(r["stages"] for r in sound_results), "databases": sum(r["databases"] for r in sound_results),
                                                        "pushes_checked": sum(r["pushes"] for r in sound_results), "skipped": [s_ for r in sound_results for s_ in r["skipped"]][:20],
                                                        "claim": "for every stage with <= 5 variables and <= 7 premise tuples the real rule module is run on every sub-database of the stage's canonical database; every push is the conclusion of a stage of the rule under an assignment whose premise holds there (concrete executions; any model size)"}
    if cfg.get("rule_level"):
        cov["rule_level_canonical_databases"] = {"programs": len(canon_results), "stages": sum(r["stages"] for r in canon_results),
                                                 "largest_rule_variables": max([r["max_vars"] for r in canon_results] + [0]),
                                                 "skipped": [s_ for r in canon_results for s_ in r["skipped"]][:20],
                                                 "claim": "for every stage: on the canonical database of its premise (one element per variable, all tuples new) the real rule module pushes the conclusion; by the homomorphism theorem for conjunctive queries this holds for matches in models of any size"}
    if cfg.get("selfcomp"):
        cov["self_composition"] = {"programs": len(sc_results), "programs_decided": sorted(r["program"] for r in sc_results if r["status"] == "proved"),
                                   "programs_undecided_within_budget (nothing claimed)": sorted(r["program"] for r in sc_results if r["status"] == "undecided"), "queries": sum(r["queries"] for r in sc_results),
                                   "plans (U, facts, iterations per close)": sorted(set((p.get("U"), p.get("k"), p.get("K")) for r in sc_results for p in r["plans"] if p.get("result") == "unsat")),
                                   "per_program": [{"program": r["program"], "status": r["status"], "plans": r["plans"], "wall_s": r.get("wall_s")} for r in sc_results][:40],
                                   "outside the bound": "histories in which some close() needs more iterations than the plan's bound are excluded (bound event assumed false)"}
        cov["solver_queries"] += sum(r["queries"] for r in sc_results)
    assumptions = [
        "WBTreeMap/WBTreeSet behave as ordered finite maps (C14, not decided by this family)",
        "PrefixTreeN operations have set semantics with ascending iteration (decided by the C08 check on the real prefix_tree.rs)",
        "programs are sampled (kernels + seeded random programs); inputs, states and histories are decided by the solver within the universe bound",
        "weights are left unconstrained: every outcome of the root-choice heuristic is covered",
        "pre-states of inductive lemmas: element-index lists hold candidate rows in ascending order (stale entries allowed)",
        "rustc and linking are trusted; newtypes are erased",
    ]
    P.write_evidence(prop, tier, seed, "other", cov, assumptions, wall, len(violations))
    for k, name, ls in known_hits:
        print("KNOWN-FINDING: property=%s %s [%s] program=%s e.g. %s" % (prop, k["what"], k["id"], name, ls[0] if ls else ""))
    for name, labels, path, found in violations:
        print("VIOLATION property=%s replay=%s" % (prop, path))
        print("  program=%s history=%s observed=%s" % (name, found[0], found[1][:3]))
    if violations:
        sys.exit(1)
    for k in vacuous:
        print("INCONCLUSIVE: vacuity witness %s unreachable in every program" % (k,))
    kani_bad = kani is not None and kani.get("status") != "ok"
    if kani_bad:
        print("INCONCLUSIVE: Kani on the real unification.rs: %s %s" % (kani.get("status"), str(kani.get("detail", ""))[:600]))
    for d in cross["disagreements"][:5]:
        print("INCONCLUSIVE: kissat and z3 disagree on %s" % (d,))
    if inconclusive or unconfirmed or val_bad or vacuous or cross["disagreements"] or kani_bad:
        for r in inconclusive[:10]:
            print("INCONCLUSIVE: %s U=%d %s: %s" % (r["program"], r["U"], r["lemma"], r.get("reason", "")[:300]))
        for u in unconfirmed[:10]:
            print("INCONCLUSIVE: lemma failed without a replayable public witness: %s" % (str(u)[:500]))
        for name, s, d in val_bad[:5]:
            print("INCONCLUSIVE: translator validation mismatch in %s: %s (script %s)" % (name, d, s))
        sys.exit(2)
    print("OK property=%s tier=%s programs=%d lemma tasks=%d obligations=%d wall=%.0fs" % (prop, tier, len(schemas), len(results), cov["obligations"], wall))
    sys.exit(0)


def _guarded_main():
    """an internal error of the machinery is never a verdict: exit 2 (inconclusive), not a traceback with exit 1"""
    try:
        main()
    except SystemExit:
        raise
    except BaseException:
        import traceback
        print("INCONCLUSIVE: internal error of the check: " + traceback.format_exc()[-1500:])
        sys.exit(2)


if __name__ == "__main__":
    _guarded_main()
