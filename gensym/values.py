"""Value domain of the symbolic executor.

Booleans are BoolV (a literal of the circuit).  Integers are Python ints (concrete), SInt
(small-domain symbolic integer: dict value -> literal, the literals mutually exclusive and
exhaustive on every feasible path) or OPQ (an opaque machine integer whose value is never
inspected: the weights heuristic; every comparison on it yields a fresh Boolean, i.e. the claim
holds for every outcome).  Aggregates are Python tuples (arrays / tuples, immutable), OptV,
EnumV, StructV, VecL (append-only guarded list, iteration only), VecA (positional vector with
symbolic length), MapV (ordered map over a small key universe) and SetV (PrefixTreeN as a total
map tuple -> literal).  All mutators take the path guard under which they happen.
"""
import itertools
from terms import T, F


class Unsupported(Exception):
    """The program uses something outside the supported subset: the run is inconclusive (exit 2)."""


class Ctx:
    def __init__(self, circ, U, cap=None):
        self.c = circ
        self.U = U                    # element universe 0..U-1 (keys of sets and maps)
        self.cap = cap if cap is not None else U   # capacity of positional vectors
        self.events = []              # (guard, kind, message): kind in {'panic', 'bound'}
        self.assumes = []             # literals constraining fresh inputs (ranges)
        self.inputs = {}              # name -> description of fresh input (for counterexample decoding)
        self.nfresh = 0
        self.compact_k = None         # see Interp.to_iter
        self.dedupe_rows = False      # witness-search mode only, see Interp.vec_items
        self.bv_weights = False       # exact weights as binary-encoded integers (symbolic histories)
        self.opaque_weights = True    # weights as opaque integers (every outcome of the heuristic) or exact

    def event(self, g, kind, msg):
        if g != F:
            self.events.append((g, kind, msg))

    def fresh_bool(self, name):
        self.nfresh += 1
        return self.c.var("%s@%d" % (name, self.nfresh))

    def fresh_int(self, name, lo, hi):
        """fresh symbolic integer in lo..hi (inclusive), binary encoded."""
        n = hi - lo + 1
        if n <= 1:
            return lo
        nb = (n - 1).bit_length()
        bits = [self.fresh_bool("%s.b%d" % (name, i)) for i in range(nb)]
        cases = {}
        for k in range(n):
            cases[lo + k] = self.c.andl([bits[i] if (k >> i) & 1 else -bits[i] for i in range(nb)])
        # exclude codes >= n
        if n < (1 << nb):
            self.assumes.append(self.c.orl(list(cases.values())))
        return SInt(cases)


CTX = None


def set_ctx(ctx):
    global CTX
    CTX = ctx
    return ctx


class BoolV:
    __slots__ = ("l",)

    def __init__(self, l):
        self.l = l

    def __repr__(self):
        return "BoolV(%s)" % ("T" if self.l == T else "F" if self.l == F else self.l)


TRUE = BoolV(T)
FALSE = BoolV(F)


def mkbool(l):
    return TRUE if l == T else FALSE if l == F else BoolV(l)


def lit(v):
    if isinstance(v, BoolV):
        return v.l
    if v is True:
        return T
    if v is False:
        return F
    raise Unsupported("expected bool, got %r" % (v,))


class SInt:
    __slots__ = ("c",)

    def __init__(self, cases):
        self.c = cases

    def __repr__(self):
        return "SInt(%s)" % sorted(self.c)


class Opaque:
    def __repr__(self):
        return "OPQ"


BVW = 20    # width of binary-encoded machine integers (exact weights in history mode); saturates at 2^20-1


class BVInt:
    """binary-encoded unsigned integer (LSB first): used where values take many different sums (weights),
    for which the value-indexed SInt representation explodes"""
    __slots__ = ("b",)

    def __init__(self, bits):
        self.b = bits

    def __repr__(self):
        v = bv_value(self)
        return "BV(%s)" % (v if v is not None else "sym")


def bv_const(n):
    n = min(n, (1 << BVW) - 1)
    return BVInt([T if (n >> i) & 1 else F for i in range(BVW)])


def bv_value(x):
    if all(b in (T, F) for b in x.b):
        return sum(1 << i for i, b in enumerate(x.b) if b == T)
    return None


def to_bv(x):
    if isinstance(x, BVInt):
        return x
    if isinstance(x, int) and not isinstance(x, bool):
        return bv_const(x)
    if isinstance(x, SInt):
        c = CTX.c
        return BVInt([c.orl([g for k, g in x.c.items() if (min(k, (1 << BVW) - 1) >> i) & 1]) for i in range(BVW)])
    raise Unsupported("cannot convert %r to a bit-vector integer" % (x,))


def bv_ite(cnd, a, b):
    c = CTX.c
    a, b = to_bv(a), to_bv(b)
    r = BVInt([c.ite(cnd, x, y) for x, y in zip(a.b, b.b)])
    v = bv_value(r)
    return r


def bv_add_sat(a, b):
    c = CTX.c
    a, b = to_bv(a), to_bv(b)
    out = []
    carry = F
    for x, y in zip(a.b, b.b):
        s = c.xor(c.xor(x, y), carry)
        carry = c.or2(c.and2(x, y), c.and2(carry, c.xor(x, y)))
        out.append(s)
    return BVInt([c.or2(carry, s) for s in out])      # saturate to all ones on overflow


def bv_lt(a, b):
    c = CTX.c
    a, b = to_bv(a), to_bv(b)
    lt = F
    for x, y in zip(a.b, b.b):     # LSB to MSB: higher bits override
        lt = c.ite(c.xor(x, y), c.and2(-x, y), lt)
    return lt


def bv_eq(a, b):
    c = CTX.c
    a, b = to_bv(a), to_bv(b)
    return c.andl([c.iff(x, y) for x, y in zip(a.b, b.b)])


def bv_sub_sat(a, b):
    c = CTX.c
    a, b = to_bv(a), to_bv(b)
    out = []
    borrow = F
    for x, y in zip(a.b, b.b):
        d = c.xor(c.xor(x, y), borrow)
        borrow = c.or2(c.and2(-x, y), c.and2(borrow, -c.xor(x, y)))
        out.append(d)
    return BVInt([c.and2(-borrow, d) for d in out])    # saturate to zero on underflow


def is_bv(x):
    return isinstance(x, BVInt)


OPQ = Opaque()


class Undef:
    def __repr__(self):
        return "UNDEF"


UNDEF = Undef()
UNIT = ()


def mkint(cases):
    cases = {k: g for k, g in cases.items() if g != F}
    if len(cases) == 1:
        return next(iter(cases))
    if not cases:
        return 0          # unreachable value (all guards false): any constant will do
    for k, g in cases.items():
        if g == T:
            return k
    return SInt(cases)


def cases_of(v):
    if isinstance(v, int) and not isinstance(v, bool):
        return {v: T}
    if isinstance(v, SInt):
        return v.c
    if isinstance(v, BVInt):
        n = bv_value(v)
        if n is not None:
            return {n: T}
        raise Unsupported("symbolic bit-vector integer used as an index / element id")
    raise Unsupported("expected integer, got %r" % (v,))


def is_int(v):
    return (isinstance(v, int) and not isinstance(v, bool)) or isinstance(v, (SInt, BVInt))


def int_eq(a, b):
    c = CTX.c
    if a is UNDEF or b is UNDEF:
        return F          # garbage of a dead / panicking path (the read that produced it raised an event)
    if a is OPQ or b is OPQ:
        return CTX.fresh_bool("opq_eq")
    if is_bv(a) or is_bv(b):
        return bv_eq(a, b)
    if isinstance(a, int) and isinstance(b, int):
        return T if a == b else F
    ca, cb = cases_of(a), cases_of(b)
    return c.orl([c.and2(g, cb[k]) for k, g in ca.items() if k in cb])


def int_lt(a, b):
    c = CTX.c
    if a is UNDEF or b is UNDEF:
        return F
    if a is OPQ or b is OPQ:
        return CTX.fresh_bool("opq_lt")
    if is_bv(a) or is_bv(b):
        return bv_lt(a, b)
    if isinstance(a, int) and isinstance(b, int):
        return T if a < b else F
    ca, cb = cases_of(a), cases_of(b)
    return c.orl([c.and2(ga, gb) for ka, ga in ca.items() for kb, gb in cb.items() if ka < kb])


def int_bin(op, a, b):
    if a is UNDEF or b is UNDEF:
        return UNDEF
    if a is OPQ or b is OPQ:
        return OPQ
    if is_bv(a) or is_bv(b):
        kind = getattr(op, "bvkind", None)
        if kind == "add":
            return bv_add_sat(a, b)
        if kind == "subsat":
            return bv_sub_sat(a, b)
        raise Unsupported("bit-vector arithmetic other than saturating add/sub")
    if isinstance(a, int) and isinstance(b, int):
        return op(a, b)
    c = CTX.c
    ca, cb = cases_of(a), cases_of(b)
    out = {}
    for ka, ga in ca.items():
        for kb, gb in cb.items():
            r = op(ka, kb)
            g = c.and2(ga, gb)
            if g != F:
                out[r] = c.or2(out.get(r, F), g)
    return mkint(out)


def int_ite(cnd, a, b):
    if cnd == T:
        return a
    if cnd == F:
        return b
    if a is OPQ or b is OPQ:
        return OPQ
    if a is UNDEF:
        return b
    if b is UNDEF:
        return a
    if isinstance(a, int) and isinstance(b, int) and a == b:
        return a
    if is_bv(a) or is_bv(b):
        return bv_ite(cnd, a, b)
    c = CTX.c
    ca, cb = cases_of(a), cases_of(b)
    out = {}
    for k in set(ca) | set(cb):
        out[k] = c.ite(cnd, ca.get(k, F), cb.get(k, F))
    return mkint(out)


def tuple_match(keys, t):
    """literal: the (possibly symbolic) key tuple equals the concrete tuple t"""
    c = CTX.c
    g = T
    for k, v in zip(keys, t):
        g = c.and2(g, int_eq(k, v))
        if g == F:
            return F
    return g


# ---------------------------------------------------------------------------------------------
class OptV:
    __slots__ = ("some", "val")

    def __init__(self, some, val):
        self.some = some          # literal
        self.val = val

    def __repr__(self):
        return "OptV(%s, %r)" % (self.some, self.val)


def some(v):
    return OptV(T, v)


NONE = OptV(F, UNDEF)


class EnumV:
    """value of a Rust enum: guarded union over variants; payload = tuple of values (or dict for named)"""
    __slots__ = ("ty", "alts")

    def __init__(self, ty, alts):
        self.ty = ty
        self.alts = alts          # variant name -> (guard literal, payload tuple)

    def __repr__(self):
        return "EnumV(%s, %r)" % (self.ty, self.alts)


class StructV:
    def __init__(self, ty, fields, frozen=False):
        self.ty = ty
        self.f = fields
        self.frozen = frozen

    def __repr__(self):
        return "StructV(%s)" % self.ty

    def clone(self):
        return StructV(self.ty, {k: clone(v) for k, v in self.f.items()})


class ClosureV:
    def __init__(self, params, body, scope, interp):
        self.params = params
        self.body = body
        self.scope = scope
        self.interp = interp


class NativeFn:
    def __init__(self, fn, name="<native>"):
        self.fn = fn
        self.name = name


class LazyV:
    def __init__(self, closure):
        self.closure = closure
        self.value = None
        self.forced = False


class RefV:
    """a reference to a scalar place"""
    __slots__ = ("place",)

    def __init__(self, place):
        self.place = place


class IterV:
    """a fully materialised iterator: ordered list of (guard, item)"""

    def __init__(self, items):
        self.items = [(g, v) for g, v in items if g != F]


# ---------------------------------------------------------------------------------------------
class VecL:
    """Vec used as an append-only sequence: ordered (guard, value) entries.  clear() is recorded lazily
    (position, literal) and folded into the guards when the entries are read."""
    kind = "VecL"

    def __init__(self, entries=None, frozen=False):
        self.e = list(entries) if entries else []
        self.clears = []
        self.frozen = frozen

    def _mut(self):
        if self.frozen:
            raise Unsupported("mutation of a merged (snapshot) Vec")

    def push(self, g, v):
        self._mut()
        if g != F:
            self.e.append((g, v))

    def items(self):
        if not self.clears:
            return list(self.e)
        c = CTX.c
        out = []
        acc = F
        ci = len(self.clears) - 1
        for i in range(len(self.e) - 1, -1, -1):
            while ci >= 0 and self.clears[ci][0] > i:
                acc = c.or2(acc, self.clears[ci][1])
                ci -= 1
            g, v = self.e[i]
            g = c.and2(g, -acc)
            if g != F:
                out.append((g, v))
        out.reverse()
        # fold: the materialised list replaces the lazy form
        self.e = out
        self.clears = []
        return list(out)

    def clear(self, g):
        self._mut()
        if g == F or not self.e:
            return
        if g == T:
            self.e = []
            self.clears = []
            return
        self.clears.append((len(self.e), g))

    def is_empty(self):
        return -CTX.c.orl([g for g, _ in self.items()])

    def length(self):
        return count_lits([g for g, _ in self.items()])

    def clone(self):
        return VecL([(g, clone(v)) for g, v in self.items()])


def count_lits(lits, cap=None):
    """symbolic number of true literals (counting network)"""
    c = CTX.c
    cnt = {0: T}
    for g in lits:
        if g == F:
            continue
        nxt = {}
        for k, gk in cnt.items():
            a = c.and2(gk, -g)
            b = c.and2(gk, g)
            if a != F:
                nxt[k] = c.or2(nxt.get(k, F), a)
            if b != F:
                kk = k + 1 if cap is None else min(k + 1, cap)
                nxt[kk] = c.or2(nxt.get(kk, F), b)
        cnt = nxt
    return mkint(cnt)


def compact(items, K):
    """order-preserving compaction of a guarded sequence into K slots; returns (slots, overflow literal).
    Exact whenever at most K entries are live; `overflow` is the literal 'more than K are live'."""
    c = CTX.c
    cnt = {0: T}          # j -> exactly j live entries so far (j == K means 'K or more')
    gs = [F] * K
    vs = [UNDEF] * K
    overflow = F
    for g, v in items:
        if g == F:
            continue
        nxt = {}
        for j, gj in cnt.items():
            sel = c.and2(g, gj)
            if j < K:
                if sel != F:
                    vs[j] = merge(sel, v, vs[j]) if gs[j] != F else v
                    gs[j] = c.or2(gs[j], sel)
            else:
                overflow = c.or2(overflow, sel)
            a = c.and2(gj, -g)
            if a != F:
                nxt[j] = c.or2(nxt.get(j, F), a)
            if sel != F:
                jj = min(j + 1, K)
                nxt[jj] = c.or2(nxt.get(jj, F), sel)
        cnt = nxt
    return [(gs[j], vs[j]) for j in range(K) if gs[j] != F], overflow


class VecA:
    """Vec used positionally: slots 0..cap-1 plus a (symbolic) length."""
    kind = "VecA"

    def __init__(self, slots=None, n=0, cap=None):
        self.cap = cap if cap is not None else CTX.cap
        self.s = list(slots) if slots else [UNDEF] * self.cap
        self.n = n
        self.frozen = False

    def length(self):
        return self.n

    def get(self, g, i):
        if i is UNDEF:
            return UNDEF
        CTX.event(CTX.c.and2(g, -int_lt(i, self.n)), "panic", "index out of bounds")
        if isinstance(i, int):
            if i >= self.cap:
                CTX.event(g, "bound", "vector capacity exceeded (read)")
                return UNDEF
            return self.s[i]
        r = UNDEF
        for k, gk in cases_of(i).items():
            if k < self.cap:
                r = merge(gk, self.s[k], r)
        return r

    def set(self, g, i, v):
        if self.frozen:
            raise Unsupported("mutation of a merged (snapshot) Vec")
        if i is UNDEF:
            return
        CTX.event(CTX.c.and2(g, -int_lt(i, self.n)), "panic", "index out of bounds")
        for k, gk in cases_of(i).items():
            if k < self.cap:
                self.s[k] = merge(CTX.c.and2(g, gk), v, self.s[k])

    def push(self, g, v):
        if self.frozen:
            raise Unsupported("mutation of a merged (snapshot) Vec")
        c = CTX.c
        for k, gk in cases_of(self.n).items():
            gg = c.and2(g, gk)
            if k < self.cap:
                self.s[k] = merge(gg, v, self.s[k])
            else:
                CTX.event(gg, "bound", "vector capacity exceeded (push)")
        self.n = int_ite(g, int_bin(lambda a, b: a + b, self.n, 1), self.n)
        # values beyond the capacity are cut (their guard is a reported bound event)
        if isinstance(self.n, SInt):
            self.n = mkint({k: gk for k, gk in self.n.c.items() if k <= self.cap})

    def items(self):
        return [(int_lt(k, self.n), self.s[k]) for k in range(self.cap)]

    def clear(self, g):
        self.n = int_ite(g, 0, self.n)

    def is_empty(self):
        return int_eq(self.n, 0)

    def clone(self):
        v = VecA([clone(x) for x in self.s], self.n, self.cap)
        return v


class MapV:
    """BTreeMap<u32, V> / WBTreeMap<V> over keys 0..U-1: per key a presence literal and a value."""
    kind = "MapV"

    def __init__(self, mkdefault=None, U=None, vty=None):
        self.U = U if U is not None else CTX.U
        self.p = [F] * self.U
        self.v = [UNDEF] * self.U
        self.mkdefault = mkdefault
        self.vty = vty
        self.frozen = False

    def _mut(self):
        if self.frozen:
            raise Unsupported("mutation of a merged (snapshot) map")

    def key_cases(self, g, k):
        out = []
        for kk, gk in cases_of(k).items():
            if 0 <= kk < self.U:
                out.append((kk, gk))
            else:
                CTX.event(CTX.c.and2(g, gk), "bound", "map key outside the universe")
        return out

    def contains_key(self, g, k):
        c = CTX.c
        return c.orl([c.and2(gk, self.p[kk]) for kk, gk in self.key_cases(g, k)])

    def get(self, g, k):
        """Option<&V> as a snapshot"""
        c = CTX.c
        s = F
        val = UNDEF
        for kk, gk in self.key_cases(g, k):
            h = c.and2(gk, self.p[kk])
            s = c.or2(s, h)
            if h != F:
                val = merge(h, snapshot(self.v[kk]), val)
        return OptV(s, val)

    def get_mut(self, g, k):
        """Option<&mut V>: guarded union of slot references"""
        c = CTX.c
        alts = []
        s = F
        for kk, gk in self.key_cases(g, k):
            h = c.and2(gk, self.p[kk])
            s = c.or2(s, h)
            alts.append((h, self.slot_ref(kk)))
        return OptV(s, mkmux(alts))

    def slot_ref(self, kk):
        v = self.v[kk]
        if is_object(v):
            return v
        return RefV(MapSlotPlace(self, kk))

    def insert(self, g, k, v):
        self._mut()
        c = CTX.c
        old = self.get(g, k)
        for kk, gk in self.key_cases(g, k):
            h = c.and2(g, gk)
            if h == F:
                continue
            self.v[kk] = v if h == T else unfreeze(merge(h, clone(v), self.v[kk]))
            self.p[kk] = c.or2(self.p[kk], h)
        return old

    def union_with(self, other, fn):
        """WBTreeMap::union: keys of both; fn(key, left value, right value) for common keys, in that operand order"""
        c = CTX.c
        r = self.__class__(U=self.U) if isinstance(self, KeySet) else MapV(self.mkdefault, self.U, self.vty)
        for k in range(self.U):
            pa, pb = self.p[k], other.p[k]
            both = c.and2(pa, pb)
            r.p[k] = c.or2(pa, pb)
            if isinstance(self, KeySet):
                continue
            val = UNDEF
            if pb != F:
                val = clone(other.v[k])
            if pa != F:
                val = merge(pa, clone(self.v[k]), val)
            if both != F:
                val = merge(both, fn(both, k, clone(self.v[k]), clone(other.v[k])), val)
            r.v[k] = unfreeze(val)
        return r

    def difference_with(self, other, fn):
        """WBTreeMap::difference: keys of self not in other; for common keys fn(key, left, right) -> Option<V> decides"""
        c = CTX.c
        r = self.__class__(U=self.U) if isinstance(self, KeySet) else MapV(self.mkdefault, self.U, self.vty)
        for k in range(self.U):
            pa, pb = self.p[k], other.p[k]
            both = c.and2(pa, pb)
            only = c.and2(pa, -pb)
            if isinstance(self, KeySet):
                res = fn(both, k, UNIT, UNIT) if both != F else NONE
                r.p[k] = c.or2(only, c.and2(both, res.some))
                continue
            val = clone(self.v[k]) if only != F else UNDEF
            keep = only
            if both != F:
                res = fn(both, k, clone(self.v[k]), clone(other.v[k]))
                keep = c.or2(keep, c.and2(both, res.some))
                val = merge(c.and2(both, res.some), res.val, val)
            r.p[k] = keep
            r.v[k] = unfreeze(val)
        return r

    def remove(self, g, k):
        self._mut()
        c = CTX.c
        old = self.get(g, k)
        for kk, gk in self.key_cases(g, k):
            h = c.and2(g, gk)
            self.p[kk] = c.and2(self.p[kk], -h)
        # the value of an absent slot is never observed: or_default / insert overwrite it on creation
        return old

    def or_default(self, g, k):
        """entry(k).or_default(): reference to the (possibly freshly created) slot"""
        self._mut()
        c = CTX.c
        alts = []
        for kk, gk in self.key_cases(g, k):
            h = c.and2(g, gk)
            if h == F:
                continue
            create = c.and2(h, -self.p[kk])
            if self.p[kk] == F:
                self.v[kk] = self.mkdefault()
            elif create != F:
                if isinstance(self.v[kk], VecL) and not self.v[kk].frozen:
                    self.v[kk].clear(create)      # a re-created slot starts from an empty Vec
                else:
                    self.v[kk] = merge_keep(create, self.mkdefault(), self.v[kk])
            self.p[kk] = c.or2(self.p[kk], create)
            alts.append((gk, self.slot_ref(kk)))
        return mkmux(alts)

    def items(self):
        return [(self.p[k], (k, self.v[k])) for k in range(self.U)]

    def is_empty(self):
        return -CTX.c.orl(self.p)

    def length(self):
        return count_lits(self.p)

    def clear(self, g):
        self._mut()
        self.p = [CTX.c.and2(p, -g) for p in self.p]

    def clone(self):
        m = MapV(self.mkdefault, self.U, self.vty)
        m.p = list(self.p)
        m.v = [clone(x) for x in self.v]
        return m


class KeySet(MapV):
    """WBTreeSet by contract: an ordered finite set of keys (a MapV whose values are ignored)"""
    kind = "KeySet"

    def __init__(self, U=None):
        MapV.__init__(self, mkdefault=lambda: UNIT, U=U)
        self.v = [UNIT] * self.U

    def clone(self):
        m = KeySet(self.U)
        m.p = list(self.p)
        return m


def unfreeze(v):
    """a freshly built (merged) value may be mutated again: it is not aliased by anything"""
    if isinstance(v, (VecL, VecA, MapV, SetV, StructV)):
        v.frozen = False
    if isinstance(v, StructV):
        for x in v.f.values():
            unfreeze(x)
    elif isinstance(v, MapV):
        for x in v.v:
            unfreeze(x)
    elif isinstance(v, OptV):
        unfreeze(v.val)
    elif isinstance(v, tuple):
        for x in v:
            unfreeze(x)
    return v


class SetV:
    """PrefixTreeN as a total map {0..U-1}^N -> literal.  Iteration is ascending lexicographic."""
    kind = "SetV"

    def __init__(self, arity, cells=None, U=None, frozen=False):
        self.arity = arity
        self.U = U if U is not None else CTX.U
        self.cells = cells if cells is not None else {}
        self.frozen = frozen

    def tuples(self):
        return itertools.product(range(self.U), repeat=self.arity)

    def cell(self, t):
        return self.cells.get(t, F)

    def _mut(self):
        if self.frozen:
            raise Unsupported("mutation of a shared/snapshot PrefixTree")

    def _keycheck(self, g, keys):
        for k in keys:
            for kk, gk in cases_of(k).items():
                if not (0 <= kk < self.U):
                    CTX.event(CTX.c.and2(g, gk), "bound", "tuple element outside the universe")

    def contains(self, g, keys):
        c = CTX.c
        self._keycheck(g, keys)
        if all(isinstance(k, int) for k in keys):
            return self.cell(tuple(keys))
        return c.orl([c.and2(tuple_match(keys, t), gt) for t, gt in self.cells.items() if gt != F])

    def insert(self, g, keys):
        """returns literal: the tuple was newly inserted"""
        self._mut()
        c = CTX.c
        self._keycheck(g, keys)
        was = self.contains(g, keys)
        if all(isinstance(k, int) for k in keys):
            t = tuple(keys)
            if all(0 <= k < self.U for k in t):
                self.cells[t] = c.or2(self.cell(t), g)
        else:
            for t in self.tuples():
                m = c.and2(g, tuple_match(keys, t))
                if m != F:
                    self.cells[t] = c.or2(self.cell(t), m)
        return -was

    def remove(self, g, keys):
        self._mut()
        c = CTX.c
        self._keycheck(g, keys)
        was = self.contains(g, keys)
        if all(isinstance(k, int) for k in keys):
            t = tuple(keys)
            if t in self.cells:
                self.cells[t] = c.and2(self.cells[t], -g)
        else:
            for t, gt in list(self.cells.items()):
                m = c.and2(g, tuple_match(keys, t))
                if m != F:
                    self.cells[t] = c.and2(gt, -m)
        return was

    def is_empty(self):
        return -CTX.c.orl(list(self.cells.values()))

    def clear(self, g):
        self._mut()
        c = CTX.c
        self.cells = {t: c.and2(gt, -g) for t, gt in self.cells.items()}
        self.cells = {t: gt for t, gt in self.cells.items() if gt != F}

    def items(self):
        return [(self.cells[t], t) for t in sorted(self.cells) if self.cells[t] != F]

    def restriction(self, k):
        """sub-relation under concrete first element k (snapshot)"""
        return SetV(self.arity - 1, {t[1:]: g for t, g in self.cells.items() if t[0] == k and g != F}, self.U, frozen=True)

    def restrictions(self):
        out = []
        for k in range(self.U):
            r = self.restriction(k)
            ne = -r.is_empty()
            if ne != F:
                out.append((ne, (k, r)))
        return out

    def get(self, g, k):
        c = CTX.c
        self._keycheck(g, [k])
        if isinstance(k, int):
            r = self.restriction(k)
            return OptV(-r.is_empty(), r)
        cells = {}
        for kk, gk in cases_of(k).items():
            for t, gt in self.cells.items():
                if t[0] == kk:
                    m = c.and2(gk, gt)
                    if m != F:
                        cells[t[1:]] = c.or2(cells.get(t[1:], F), m)
        r = SetV(self.arity - 1, cells, self.U, frozen=True)
        return OptV(-r.is_empty(), r)

    def union(self, other):
        c = CTX.c
        cells = dict(self.cells)
        for t, g in other.cells.items():
            cells[t] = c.or2(cells.get(t, F), g)
        return SetV(self.arity, cells, self.U)

    def difference(self, other):
        c = CTX.c
        return SetV(self.arity, {t: c.and2(g, -other.cell(t)) for t, g in self.cells.items()}, self.U)

    def mapped(self, maps):
        """PrefixTreeN::mapped (contract decided by the C08 check on the real code): column i is sent through maps[i]
        (an Option<PrefixTree2> read as a partial function: x -> the least y with (x, y) in it; None = identity);
        tuples with an undefined component are dropped"""
        import itertools
        c = CTX.c
        U = self.U
        if len(maps) != self.arity:
            raise Unsupported("mapped with %d maps on a PrefixTree%d" % (len(maps), self.arity))
        img = []
        for mp in maps:
            d = {}
            for x in range(U):
                for y in range(U):
                    if mp is None or mp.some == F:
                        d[(x, y)] = T if x == y else F
                        continue
                    first = c.and2(mp.val.cell((x, y)), c.andl([-mp.val.cell((x, y2)) for y2 in range(y)]))
                    d[(x, y)] = first if mp.some == T else c.or2(c.and2(mp.some, first), c.and2(-mp.some, T if x == y else F))
            img.append(d)
        cells = {}
        for t, g in self.cells.items():
            if g == F:
                continue
            for t2 in itertools.product(range(U), repeat=self.arity):
                m = c.and2(g, c.andl([img[i][(t[i], t2[i])] for i in range(self.arity)]))
                if m != F:
                    cells[t2] = c.or2(cells.get(t2, F), m)
        return SetV(self.arity, cells, U)

    def insert_restriction(self, g, k, r):
        self._mut()
        c = CTX.c
        for kk, gk in cases_of(k).items():
            h = c.and2(g, gk)
            for t, gt in r.cells.items():
                m = c.and2(h, gt)
                if m != F:
                    self.cells[(kk,) + t] = c.or2(self.cell((kk,) + t), m)

    def remove_restriction(self, g, k, r):
        self._mut()
        c = CTX.c
        for kk, gk in cases_of(k).items():
            h = c.and2(g, gk)
            for t, gt in r.cells.items():
                m = c.and2(h, gt)
                if m != F and ((kk,) + t) in self.cells:
                    self.cells[(kk,) + t] = c.and2(self.cells[(kk,) + t], -m)

    def clone(self):
        return SetV(self.arity, dict(self.cells), self.U)


class MapSlotPlace:
    def __init__(self, m, k):
        self.m = m
        self.k = k

    def get(self):
        return self.m.v[self.k]

    def set(self, g, v):
        self.m.v[self.k] = merge(g, v, self.m.v[self.k])


class Mux:
    """guarded union of references to mutable objects / scalar places"""

    def __init__(self, alts):
        self.alts = alts


def mkmux(alts):
    alts = [(g, o) for g, o in alts if g != F]
    if len(alts) == 1:
        return alts[0][1]
    if not alts:
        return UNDEF
    return Mux(alts)


def snapshot(v):
    """a copy that later mutations of v cannot reach (entries / cells are immutable, so shallow)"""
    if isinstance(v, VecL):
        return VecL(v.items(), frozen=True)
    if isinstance(v, SetV):
        return SetV(v.arity, dict(v.cells), v.U, frozen=True)
    if isinstance(v, (VecA, MapV, StructV)):
        r = v.clone()
        r.frozen = True
        return r
    return v


def is_object(v):
    return isinstance(v, (VecL, VecA, MapV, SetV, StructV))


def clone(v):
    if isinstance(v, (VecL, VecA, MapV, SetV, StructV)):
        return v.clone()
    if isinstance(v, tuple):
        return tuple(clone(x) for x in v)
    if isinstance(v, OptV):
        return OptV(v.some, clone(v.val))
    if isinstance(v, EnumV):
        return EnumV(v.ty, {k: (g, clone(p)) for k, (g, p) in v.alts.items()})
    return v


def merge_keep(cnd, a, b):
    """like merge, but the result must remain a mutable object: used when a slot is (re)created"""
    r = merge(cnd, a, b)
    if hasattr(r, "frozen"):
        r.frozen = False
    return r


def merge(cnd, a, b):
    """value equal to a if cnd else b"""
    if cnd == T:
        return a
    if cnd == F:
        return b
    if a is b:
        return a
    if a is UNDEF:
        return b
    if b is UNDEF:
        return a
    c = CTX.c
    if isinstance(a, BoolV) and isinstance(b, BoolV):
        return mkbool(c.ite(cnd, a.l, b.l))
    if (is_int(a) or a is OPQ) and (is_int(b) or b is OPQ):
        return int_ite(cnd, a, b)
    if isinstance(a, tuple) and isinstance(b, tuple):
        if len(a) != len(b):
            raise Unsupported("merge of tuples of different length")
        return tuple(merge(cnd, x, y) for x, y in zip(a, b))
    if isinstance(a, OptV) and isinstance(b, OptV):
        return OptV(c.ite(cnd, a.some, b.some), merge(cnd, a.val, b.val))
    if isinstance(a, EnumV) and isinstance(b, EnumV):
        alts = {}
        for k in set(a.alts) | set(b.alts):
            ga, pa = a.alts.get(k, (F, UNDEF))
            gb, pb = b.alts.get(k, (F, UNDEF))
            alts[k] = (c.ite(cnd, ga, gb), merge(cnd, pa, pb))
        return EnumV(a.ty, alts)
    if isinstance(a, SetV) and isinstance(b, SetV):
        cells = {}
        for t in set(a.cells) | set(b.cells):
            cells[t] = c.ite(cnd, a.cell(t), b.cell(t))
        return SetV(a.arity, cells, a.U, frozen=True)
    if isinstance(a, VecL) and isinstance(b, VecL):
        # common prefix (same entry objects) is kept; the rest is guarded
        ae, be = a.items(), b.items()
        i = 0
        while i < len(ae) and i < len(be) and ae[i][0] == be[i][0] and ae[i][1] is be[i][1]:
            i += 1
        ent = ae[:i] + [(c.and2(cnd, g), v) for g, v in ae[i:]] + [(c.and2(-cnd, g), v) for g, v in be[i:]]
        return VecL(ent, frozen=True)
    if isinstance(a, VecA) and isinstance(b, VecA):
        r = VecA([merge(cnd, x, y) for x, y in zip(a.s, b.s)], int_ite(cnd, a.n, b.n), a.cap)
        r.frozen = True
        return r
    if isinstance(a, MapV) and isinstance(b, MapV):
        m = KeySet(a.U) if isinstance(a, KeySet) else MapV(a.mkdefault, a.U, a.vty)
        m.p = [c.ite(cnd, x, y) for x, y in zip(a.p, b.p)]
        m.v = [merge(cnd, x, y) for x, y in zip(a.v, b.v)]
        m.frozen = True
        return m
    if isinstance(a, StructV) and isinstance(b, StructV) and a.ty == b.ty:
        return StructV(a.ty, {k: merge(cnd, a.f[k], b.f[k]) for k in a.f}, frozen=True)
    if isinstance(a, (RefV, Mux)) or isinstance(b, (RefV, Mux)):
        alts = []
        for g0, x in ((cnd, a), (-cnd, b)):
            if isinstance(x, Mux):
                alts += [(c.and2(g0, g), o) for g, o in x.alts]
            else:
                alts.append((g0, x))
        return mkmux(alts)
    if type(a).__name__ in ("StrA", "StrS") or type(b).__name__ in ("StrA", "StrS"):
        import strprof
        return strprof.merge_str(cnd, a, b)
    raise Unsupported("cannot merge %r and %r" % (type(a).__name__, type(b).__name__))
